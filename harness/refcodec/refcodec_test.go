package refcodec

import (
	"bytes"
	"fmt"
	"math/rand"
	"sort"
	"strings"
	"testing"

	mp "github.com/mochi-mqtt/server/v2/packets"
)

// ---------------------------------------------------------------------------
// helpers
// ---------------------------------------------------------------------------

func propsEqual(a, b []Prop) bool {
	if len(a) != len(b) {
		return false
	}
	for i := range a {
		if a[i].ID != b[i].ID || a[i].Int != b[i].Int || a[i].Str != b[i].Str || a[i].Val != b[i].Val || !bytes.Equal(a[i].Bin, b[i].Bin) {
			return false
		}
	}
	return true
}

// diffPackets compares all fields except Raw; nil and empty slices are equal.
func diffPackets(a, b *Packet) string {
	var d []string
	add := func(name string, x, y interface{}) {
		d = append(d, fmt.Sprintf("%s: %v != %v", name, x, y))
	}
	if a.Type != b.Type {
		add("Type", a.Type, b.Type)
	}
	if a.Flags != b.Flags {
		add("Flags", a.Flags, b.Flags)
	}
	if a.Version != b.Version {
		add("Version", a.Version, b.Version)
	}
	if a.Dup != b.Dup || a.Qos != b.Qos || a.Retain != b.Retain {
		add("Dup/Qos/Retain", []interface{}{a.Dup, a.Qos, a.Retain}, []interface{}{b.Dup, b.Qos, b.Retain})
	}
	if a.Topic != b.Topic {
		add("Topic", len(a.Topic), len(b.Topic))
	}
	if a.PacketID != b.PacketID {
		add("PacketID", a.PacketID, b.PacketID)
	}
	if !bytes.Equal(a.Payload, b.Payload) {
		add("Payload", len(a.Payload), len(b.Payload))
	}
	if a.ProtoName != b.ProtoName || a.ProtoVersion != b.ProtoVersion || a.ConnectFlags != b.ConnectFlags || a.KeepAlive != b.KeepAlive || a.ClientID != b.ClientID {
		add("connect header", []interface{}{a.ProtoName, a.ProtoVersion, a.ConnectFlags, a.KeepAlive, a.ClientID},
			[]interface{}{b.ProtoName, b.ProtoVersion, b.ConnectFlags, b.KeepAlive, b.ClientID})
	}
	if !propsEqual(a.WillProps, b.WillProps) || a.HasWillProps != b.HasWillProps {
		add("WillProps", a.WillProps, b.WillProps)
	}
	if a.WillTopic != b.WillTopic || !bytes.Equal(a.WillPayload, b.WillPayload) {
		add("Will", a.WillTopic, b.WillTopic)
	}
	if !bytes.Equal(a.Username, b.Username) || !bytes.Equal(a.Password, b.Password) {
		add("User/Pass", a.Username, b.Username)
	}
	if a.SessionPresent != b.SessionPresent {
		add("SessionPresent", a.SessionPresent, b.SessionPresent)
	}
	if a.ReasonCode != b.ReasonCode || a.HasReason != b.HasReason {
		add("Reason", []interface{}{a.ReasonCode, a.HasReason}, []interface{}{b.ReasonCode, b.HasReason})
	}
	if len(a.Filters) != len(b.Filters) {
		add("Filters", a.Filters, b.Filters)
	} else {
		for i := range a.Filters {
			if a.Filters[i] != b.Filters[i] {
				add("Filter", a.Filters[i], b.Filters[i])
			}
		}
	}
	if !bytes.Equal(a.ReasonCodes, b.ReasonCodes) {
		add("ReasonCodes", a.ReasonCodes, b.ReasonCodes)
	}
	if !propsEqual(a.Props, b.Props) || a.HasProps != b.HasProps {
		add("Props", fmt.Sprint(a.HasProps, a.Props), fmt.Sprint(b.HasProps, b.Props))
	}
	return strings.Join(d, "; ")
}

func dirOf(t byte) Dir {
	switch t {
	case Connect, Subscribe, Unsubscribe, Pingreq:
		return FromClient
	}
	return FromServer
}

func user(k, v string) Prop { return Prop{ID: PropUser, Str: k, Val: v} }

// ---------------------------------------------------------------------------
// 4. variable byte integers
// ---------------------------------------------------------------------------

func TestVBI(t *testing.T) {
	cases := []struct {
		v uint32
		b []byte
	}{
		{0, []byte{0x00}}, {127, []byte{0x7F}},
		{128, []byte{0x80, 0x01}}, {16383, []byte{0xFF, 0x7F}},
		{16384, []byte{0x80, 0x80, 0x01}}, {2097151, []byte{0xFF, 0xFF, 0x7F}},
		{2097152, []byte{0x80, 0x80, 0x80, 0x01}}, {268435455, []byte{0xFF, 0xFF, 0xFF, 0x7F}},
	}
	for _, c := range cases {
		enc := EncodeVBI(c.v)
		if !bytes.Equal(enc, c.b) {
			t.Errorf("EncodeVBI(%d) = % X, want % X", c.v, enc, c.b)
		}
		v, n, err := DecodeVBI(append(append([]byte{}, c.b...), 0xAA, 0xBB))
		if err != nil || v != c.v || n != len(c.b) {
			t.Errorf("DecodeVBI(% X) = %d,%d,%v want %d,%d", c.b, v, n, err, c.v, len(c.b))
		}
		for cut := 0; cut < len(c.b); cut++ {
			if _, _, err := DecodeVBI(c.b[:cut]); RuleOf(err) != "length" {
				t.Errorf("DecodeVBI(% X) truncated: rule %q, want length", c.b[:cut], RuleOf(err))
			}
		}
	}
	for _, bad := range [][]byte{
		{0x80, 0x80, 0x80, 0x80, 0x01}, {0xFF, 0xFF, 0xFF, 0xFF, 0x7F}, {0x80, 0x80, 0x80, 0x80}, {0xFF, 0xFF, 0xFF, 0xFF, 0xFF, 0x00},
	} {
		if _, _, err := DecodeVBI(bad); RuleOf(err) != "vbi" {
			t.Errorf("DecodeVBI(% X): rule %q, want vbi", bad, RuleOf(err))
		}
	}
	func() {
		defer func() {
			if recover() == nil {
				t.Errorf("EncodeVBI(268435456) did not panic")
			}
		}()
		EncodeVBI(268435456)
	}()
	// exhaustive-ish round trip
	rng := rand.New(rand.NewSource(1))
	for i := 0; i < 100000; i++ {
		v := uint32(rng.Int63n(MaxVBI + 1))
		got, n, err := DecodeVBI(EncodeVBI(v))
		if err != nil || got != v || n != vbiLen(v) {
			t.Fatalf("round trip %d: %d %d %v", v, got, n, err)
		}
	}
	// remaining length of a packet: 5-byte form rejected by every entry point
	bad := []byte{0x30, 0x80, 0x80, 0x80, 0x80, 0x01, 0, 0}
	if _, err := Decode(bad, 4, FromServer); RuleOf(err) != "remaining-length" {
		t.Errorf("Decode 5-byte remaining length: %v", err)
	}
	if _, err := DecodeLenient(bad, 4); RuleOf(err) != "remaining-length" {
		t.Errorf("DecodeLenient 5-byte remaining length: %v", err)
	}
	if _, _, err := SplitStream(bad); RuleOf(err) != "remaining-length" {
		t.Errorf("SplitStream 5-byte remaining length: %v", err)
	}
	// non-minimal forms: rejected for v5 only
	nm := []byte{0xD0, 0x80, 0x00}
	if _, err := Decode(nm, 5, FromServer); RuleOf(err) != "vbi-nonminimal" {
		t.Errorf("v5 non-minimal remaining length: %v", err)
	}
	if _, err := Decode(nm, 4, FromServer); err != nil {
		t.Errorf("v4 non-minimal remaining length: %v", err)
	}
}

var (
	bigStr = strings.Repeat("x", 65535)
	bigBin = bytes.Repeat([]byte{0xAB}, 65535)
)

// corpus returns hand-built, standard-conforming packets of every type for
// protocol version v (3, 4 or 5).
func corpus(v byte) []*Packet {
	v5 := v == 5
	var out []*Packet
	add := func(p *Packet) *Packet { out = append(out, p); return p }

	// CONNECT
	c := add(New(Connect, v))
	c.ConnectFlags = FlagCleanStart
	c.KeepAlive = 60
	c.ClientID = "zen"
	c = add(New(Connect, v)) // empty client id
	c.ConnectFlags = FlagCleanStart
	c = add(New(Connect, v)) // everything
	c.ConnectFlags = FlagCleanStart | FlagWill | FlagWillQos1 | FlagWillRetain | FlagUsername | FlagPassword
	c.KeepAlive = 65535
	c.ClientID = "client-é世\U0001F600"
	c.WillTopic = "will/topic"
	c.WillPayload = []byte{0, 1, 2, 0xFF}
	c.Username = []byte("user")
	c.Password = []byte{0x00, 0xFF, 0x80}
	if v5 {
		c.Props = []Prop{
			{ID: PropSessionExpiry, Int: 0xFFFFFFFF}, {ID: PropReceiveMaximum, Int: 1}, {ID: PropMaximumPacketSize, Int: 1},
			{ID: PropTopicAliasMax, Int: 65535}, {ID: PropRequestResponseInfo, Int: 1}, {ID: PropRequestProblemInfo, Int: 0},
			user("k", "v"), user("k", "v"), user("", ""),
			{ID: PropAuthMethod, Str: "SCRAM"}, {ID: PropAuthData, Bin: []byte{1, 2, 3}},
		}
		c.WillProps = []Prop{
			{ID: PropWillDelay, Int: 30}, {ID: PropPayloadFormat, Int: 1}, {ID: PropMessageExpiry, Int: 7},
			{ID: PropContentType, Str: "text/plain"}, {ID: PropResponseTopic, Str: "r/t"},
			{ID: PropCorrelationData, Bin: []byte{9, 8}}, user("w", bigStr),
		}
	}
	c = add(New(Connect, v)) // will with empty payload, qos 2, big fields
	c.ConnectFlags = FlagWill | FlagWillQos2 | FlagUsername
	c.ClientID = bigStr
	c.WillTopic = bigStr
	c.WillPayload = nil
	c.Username = []byte{}
	if v5 {
		c = add(New(Connect, v)) // v5 allows password without user name
		c.ConnectFlags = FlagPassword
		c.Password = bigBin
	}

	// CONNACK
	k := add(New(Connack, v))
	k.HasReason = true
	k = add(New(Connack, v))
	k.HasReason = true
	if v != 3 {
		k.SessionPresent = true
	}
	k = add(New(Connack, v))
	k.HasReason = true
	k.ReasonCode = 5
	if v5 {
		k.ReasonCode = 0x87
		k.Props = []Prop{{ID: PropReasonString, Str: "no"}, user("a", "b"), {ID: PropServerReference, Str: "other"}}
		k = add(New(Connack, v))
		k.HasReason = true
		k.Props = []Prop{
			{ID: PropSessionExpiry, Int: 10}, {ID: PropReceiveMaximum, Int: 65535}, {ID: PropMaximumQos, Int: 1},
			{ID: PropRetainAvailable, Int: 1}, {ID: PropMaximumPacketSize, Int: 268435455}, {ID: PropAssignedClientID, Str: "auto-1"},
			{ID: PropTopicAliasMax, Int: 0}, {ID: PropWildcardSubAvailable, Int: 1}, {ID: PropSubIDAvailable, Int: 0},
			{ID: PropSharedSubAvailable, Int: 1}, {ID: PropServerKeepAlive, Int: 0}, {ID: PropResponseInfo, Str: "resp/"},
			{ID: PropAuthMethod, Str: "m"}, {ID: PropAuthData, Bin: []byte{}}, user(bigStr, ""),
		}
	}

	// PUBLISH
	for qos := byte(0); qos < 3; qos++ {
		for _, retain := range []bool{false, true} {
			pb := add(New(Publish, v))
			pb.Qos, pb.Retain = qos, retain
			pb.Dup = qos > 0 && retain
			pb.Topic = "a/b/c"
			pb.Payload = []byte("hello")
			if qos > 0 {
				pb.PacketID = 65535 - uint16(qos)
			}
		}
	}
	pb := add(New(Publish, v)) // empty payload, $-topic, odd characters
	pb.Topic = "$SYS/x y/ /�"
	pb = add(New(Publish, v)) // maximal topic, binary payload
	pb.Topic = bigStr
	pb.Qos, pb.PacketID = 1, 1
	pb.Payload = bigBin
	if v5 {
		pb = add(New(Publish, v))
		pb.Topic = "t"
		pb.Qos, pb.PacketID = 2, 7
		pb.Props = []Prop{
			{ID: PropPayloadFormat, Int: 1}, {ID: PropMessageExpiry, Int: 1}, {ID: PropTopicAlias, Int: 65535},
			{ID: PropResponseTopic, Str: "re/ply"}, {ID: PropCorrelationData, Bin: bigBin}, user("k1", "v1"), user("k1", "v2"),
			{ID: PropSubscriptionID, Int: 1}, {ID: PropSubscriptionID, Int: 128}, {ID: PropSubscriptionID, Int: 268435455},
			{ID: PropContentType, Str: ""},
		}
		pb.Payload = []byte{0}
		pb = add(New(Publish, v)) // alias only
		pb.Props = []Prop{{ID: PropTopicAlias, Int: 1}}
		pb.Payload = []byte("via alias")
	}

	// PUBACK / PUBREC / PUBREL / PUBCOMP
	for _, t := range []byte{Puback, Pubrec, Pubrel, Pubcomp} {
		a := add(New(t, v))
		a.PacketID = 1
		a = add(New(t, v))
		a.PacketID = 65535
		if v5 {
			rc := byte(0x92)
			if t == Puback || t == Pubrec {
				rc = 0x10
			}
			a = add(New(t, v)) // 3-byte form
			a.PacketID, a.HasReason, a.ReasonCode = 2, true, rc
			a = add(New(t, v)) // 3-byte form with success
			a.PacketID, a.HasReason = 3, true
			a = add(New(t, v)) // empty property block
			a.PacketID, a.HasReason, a.HasProps = 4, true, true
			a = add(New(t, v))
			a.PacketID, a.HasReason, a.HasProps, a.ReasonCode = 5, true, true, rc
			a.Props = []Prop{{ID: PropReasonString, Str: "because"}, user("x", "y"), user("x", "y")}
		}
	}

	// SUBSCRIBE
	s := add(New(Subscribe, v))
	s.PacketID = 10
	s.Filters = []Filter{{Filter: "a/b", Options: 0}}
	s = add(New(Subscribe, v))
	s.PacketID = 11
	s.Filters = []Filter{{"#", 2}, {"+/+/#", 1}, {"/", 0}, {"$SYS/#", 1}, {bigStr, 2}, {"a//b/+", 0}}
	if v5 {
		s = add(New(Subscribe, v))
		s.PacketID = 12
		s.Props = []Prop{{ID: PropSubscriptionID, Int: 268435455}, user("s", "u")}
		s.Filters = []Filter{{"a/#", 0x2E}, {"$share/grp/a/+", 0x19}, {"$share/g/#", 0x02}, {"b", 0x04}}
	}

	// SUBACK
	sa := add(New(Suback, v))
	sa.PacketID = 10
	sa.ReasonCodes = []byte{0}
	sa = add(New(Suback, v))
	sa.PacketID = 11
	sa.ReasonCodes = []byte{0, 1, 2, 0x80}
	if v5 {
		sa = add(New(Suback, v))
		sa.PacketID = 12
		sa.ReasonCodes = []byte{0x83, 0x87, 0x8F, 0x91, 0x97, 0x9E, 0xA1, 0xA2}
		sa.Props = []Prop{{ID: PropReasonString, Str: "r"}, user("a", "b")}
	}

	// UNSUBSCRIBE
	u := add(New(Unsubscribe, v))
	u.PacketID = 20
	u.Filters = []Filter{{Filter: "a/b"}}
	u = add(New(Unsubscribe, v))
	u.PacketID = 21
	u.Filters = []Filter{{Filter: "#"}, {Filter: "+/x"}, {Filter: bigStr}}
	if v5 {
		u.Props = []Prop{user("u", "p")}
	}

	// UNSUBACK
	ua := add(New(Unsuback, v))
	ua.PacketID = 20
	if v5 {
		ua.ReasonCodes = []byte{0}
		ua = add(New(Unsuback, v))
		ua.PacketID = 21
		ua.ReasonCodes = []byte{0x00, 0x11, 0x80, 0x83, 0x87, 0x8F, 0x91}
		ua.Props = []Prop{{ID: PropReasonString, Str: bigStr}, user("a", "b")}
	}

	add(New(Pingreq, v))
	add(New(Pingresp, v))

	// DISCONNECT (the corpus is decoded as sent by the server, except client-only types)
	if v5 {
		add(New(Disconnect, v)) // remaining length 0
		dc := add(New(Disconnect, v))
		dc.HasReason = true // remaining length 1, reason 0
		dc = add(New(Disconnect, v))
		dc.HasReason, dc.ReasonCode = true, 0x8E
		dc = add(New(Disconnect, v))
		dc.HasReason, dc.HasProps, dc.ReasonCode = true, true, 0x81
		dc = add(New(Disconnect, v))
		dc.HasReason, dc.HasProps, dc.ReasonCode = true, true, 0x9C
		dc.Props = []Prop{{ID: PropReasonString, Str: "moved"}, {ID: PropServerReference, Str: "host:1883"}, user("a", "b")}

		// AUTH
		au := add(New(Auth, v))
		au.HasReason, au.ReasonCode = true, 0x18
		au = add(New(Auth, v))
		au.HasReason, au.HasProps, au.ReasonCode = true, true, 0x18
		au.Props = []Prop{{ID: PropAuthMethod, Str: "SCRAM"}, {ID: PropAuthData, Bin: bigBin}, {ID: PropReasonString, Str: "go on"}, user("a", "b")}
		add(New(Auth, v)) // remaining length 0 = success, from the server
	}
	return out
}

// 1. round trip
func TestRoundTrip(t *testing.T) {
	total := 0
	for _, v := range []byte{3, 4, 5} {
		seen := map[byte]bool{}
		for i, p := range corpus(v) {
			total++
			seen[p.Type] = true
			raw := Encode(p)
			dir := dirOf(p.Type)
			got, err := Decode(raw, v, dir)
			if err != nil {
				t.Errorf("v%d #%d %s: strict decode of own encoding failed: %v", v, i, TypeName(p.Type), err)
				continue
			}
			want := *p
			want.Flags = raw[0] & 0x0F
			if v == 5 {
				switch p.Type {
				case Connect, Connack, Publish, Subscribe, Suback, Unsubscribe, Unsuback:
					want.HasProps = true
				case Puback, Pubrec, Pubrel, Pubcomp, Disconnect, Auth:
					want.HasReason = p.HasReason || p.HasProps
				}
				if p.Type == Connect && p.WillFlag() {
					want.HasWillProps = true
				}
			}
			if d := diffPackets(&want, got); d != "" {
				t.Errorf("v%d #%d %s: %s", v, i, TypeName(p.Type), d)
			}
			if !bytes.Equal(got.Raw, raw) {
				t.Errorf("v%d #%d %s: Raw differs", v, i, TypeName(p.Type))
			}
			if re := Encode(got); !bytes.Equal(re, raw) {
				t.Errorf("v%d #%d %s: re-encoding differs", v, i, TypeName(p.Type))
			}
			// the lenient decoder must agree with the strict one on valid input
			len1, err := DecodeLenient(raw, v)
			if err != nil {
				t.Errorf("v%d #%d %s: lenient: %v", v, i, TypeName(p.Type), err)
			} else if d := diffPackets(got, len1); d != "" {
				t.Errorf("v%d #%d %s: lenient differs: %s", v, i, TypeName(p.Type), d)
			}
			// client-or-server packets must be accepted from the client as well
			switch p.Type {
			case Publish, Puback, Pubrec, Pubrel, Pubcomp:
				if _, ok := p.Prop(PropSubscriptionID); ok {
					break
				}
				if _, err := Decode(raw, v, FromClient); err != nil {
					t.Errorf("v%d #%d %s from client: %v", v, i, TypeName(p.Type), err)
				}
			}
			// stream splitting of the packet followed by a partial one
			pk, n, err := SplitStream(append(append([]byte{}, raw...), 0x30))
			if err != nil || n != len(raw) || len(pk) != 1 || !bytes.Equal(pk[0], raw) {
				t.Errorf("v%d #%d %s: SplitStream n=%d err=%v", v, i, TypeName(p.Type), n, err)
			}
		}
		for ty := Connect; ty <= Auth; ty++ {
			if !seen[ty] && !(v != 5 && (ty == Auth || ty == Disconnect)) {
				t.Errorf("v%d: corpus lacks %s", v, TypeName(ty))
			}
		}
	}
	// v3/v4 DISCONNECT comes from the client only
	for _, v := range []byte{3, 4} {
		raw := Encode(New(Disconnect, v))
		if !bytes.Equal(raw, []byte{0xE0, 0x00}) {
			t.Errorf("v%d DISCONNECT encoding % X", v, raw)
		}
		if _, err := Decode(raw, v, FromClient); err != nil {
			t.Errorf("v%d DISCONNECT from client: %v", v, err)
		}
		if _, err := Decode(raw, v, FromServer); RuleOf(err) != "v3-server-disconnect" {
			t.Errorf("v%d DISCONNECT from server: %v", v, err)
		}
	}
	t.Logf("%d packets round-tripped", total)
}

// Known wire images, written by hand from the standards' figures, pin the
// encoder independently of the decoder.
func TestKnownBytes(t *testing.T) {
	c := New(Connect, 4)
	c.ConnectFlags, c.KeepAlive, c.ClientID = FlagCleanStart, 10, "ab"
	pub5 := New(Publish, 5)
	pub5.Topic, pub5.Qos, pub5.PacketID, pub5.Retain = "a/b", 1, 10, true
	pub5.Props = []Prop{{ID: PropTopicAlias, Int: 3}, {ID: PropSubscriptionID, Int: 200}}
	pub5.Payload = []byte("hi")
	sub5 := New(Subscribe, 5)
	sub5.PacketID = 1
	sub5.Filters = []Filter{{"a/#", 0x01}}
	ack := New(Puback, 5)
	ack.PacketID, ack.HasReason, ack.ReasonCode = 0x1234, true, 0x10
	dis := New(Disconnect, 5)
	dis.HasProps, dis.ReasonCode = true, 0x8E
	dis.Props = []Prop{user("a", "b")}
	for i, c := range []struct {
		p    *Packet
		want []byte
	}{
		{c, []byte{0x10, 14, 0, 4, 'M', 'Q', 'T', 'T', 4, 2, 0, 10, 0, 2, 'a', 'b'}},
		{pub5, []byte{0x33, 16, 0, 3, 'a', '/', 'b', 0, 10, 6, 0x23, 0, 3, 0x0B, 0xC8, 0x01, 'h', 'i'}},
		{sub5, []byte{0x82, 9, 0, 1, 0, 0, 3, 'a', '/', '#', 1}},
		{ack, []byte{0x40, 3, 0x12, 0x34, 0x10}},
		{dis, []byte{0xE0, 9, 0x8E, 7, 0x26, 0, 1, 'a', 0, 1, 'b'}},
		{New(Pingreq, 4), []byte{0xC0, 0}},
	} {
		if got := Encode(c.p); !bytes.Equal(got, c.want) {
			t.Errorf("#%d: got % X want % X", i, got, c.want)
		}
	}
	lie := EncodeWithRemaining(New(Pingreq, 4), 200)
	if !bytes.Equal(lie, []byte{0xC0, 0xC8, 0x01}) {
		t.Errorf("EncodeWithRemaining: % X", lie)
	}
}

// raw builds a packet from a first byte and a body, computing the remaining length.
func raw(first byte, body ...byte) []byte {
	out := []byte{first}
	out = appendVBI(out, uint32(len(body)))
	return append(out, body...)
}

func cat(parts ...[]byte) []byte {
	var out []byte
	for _, p := range parts {
		out = append(out, p...)
	}
	return out
}

func s(v string) []byte { return appendStr(nil, v) }

// Every strict rule is exercised by at least one hand-made violating packet.
func TestStrictRules(t *testing.T) {
	mk := func(t byte, v byte, f func(p *Packet)) []byte {
		p := New(t, v)
		f(p)
		return Encode(p)
	}
	pub := func(v byte, f func(p *Packet)) []byte {
		return mk(Publish, v, func(p *Packet) { p.Topic = "t"; f(p) })
	}
	cases := []struct {
		name string
		b    []byte
		v    byte
		dir  Dir
		rule string
	}{
		{"empty", nil, 4, FromServer, "length"},
		{"one byte", []byte{0xC0}, 4, FromClient, "length"},
		{"truncated", []byte{0x30, 5, 0, 1, 'a'}, 4, FromServer, "length"},
		{"trailing", []byte{0xD0, 0, 0}, 4, FromServer, "length"},
		{"bad version", []byte{0xD0, 0}, 6, FromServer, "version"},
		{"type 0", []byte{0x00, 0}, 5, FromServer, "packet-type"},
		{"auth v4", []byte{0xF0, 0}, 4, FromServer, "v3-auth"},
		{"auth v3", []byte{0xF0, 0}, 3, FromClient, "v3-auth"},
		{"server connect", mk(Connect, 4, func(p *Packet) {}), 4, FromServer, "direction"},
		{"server subscribe", mk(Subscribe, 4, func(p *Packet) { p.PacketID = 1; p.Filters = []Filter{{"a", 0}} }), 4, FromServer, "direction"},
		{"server unsubscribe", mk(Unsubscribe, 4, func(p *Packet) { p.PacketID = 1; p.Filters = []Filter{{"a", 0}} }), 4, FromServer, "direction"},
		{"server pingreq", []byte{0xC0, 0}, 5, FromServer, "direction"},
		{"client connack", []byte{0x20, 2, 0, 0}, 4, FromClient, "direction"},
		{"client suback", []byte{0x90, 3, 0, 1, 0}, 4, FromClient, "direction"},
		{"client unsuback", []byte{0xB0, 2, 0, 1}, 4, FromClient, "direction"},
		{"client pingresp", []byte{0xD0, 0}, 4, FromClient, "direction"},
		{"v4 server disconnect", []byte{0xE0, 0}, 4, FromServer, "v3-server-disconnect"},
		{"pingresp flags", []byte{0xD1, 0}, 4, FromServer, "reserved-flags"},
		{"pubrel flags 0", []byte{0x60, 2, 0, 1}, 4, FromServer, "reserved-flags"},
		{"puback flags 2", []byte{0x42, 2, 0, 1}, 4, FromServer, "reserved-flags"},
		{"subscribe flags 0", []byte{0x80, 6, 0, 1, 0, 1, 'a', 0}, 4, FromClient, "reserved-flags"},
		{"connack flags", []byte{0x28, 2, 0, 0}, 4, FromServer, "reserved-flags"},
		{"qos3", []byte{0x36, 5, 0, 1, 'a', 0, 1}, 4, FromServer, "qos3"},
		{"dup qos0", []byte{0x38, 3, 0, 1, 'a'}, 4, FromServer, "dup-qos0"},
		{"pingresp body", []byte{0xD0, 1, 0}, 4, FromServer, "length"},
		{"pingreq body", []byte{0xC0, 1, 0}, 5, FromClient, "length"},
		{"v4 disconnect body", []byte{0xE0, 1, 0}, 4, FromClient, "v3-has-properties"},
		{"v4 puback reason", []byte{0x40, 3, 0, 1, 0}, 4, FromServer, "v3-has-properties"},
		{"v4 puback props", []byte{0x40, 4, 0, 1, 0, 0}, 4, FromServer, "v3-has-properties"},
		{"v4 pubrel props", []byte{0x62, 4, 0, 1, 0, 0}, 4, FromServer, "v3-has-properties"},
		{"v4 connack props", []byte{0x20, 3, 0, 0, 0}, 4, FromServer, "v3-has-properties"},
		{"v4 unsuback codes", []byte{0xB0, 3, 0, 1, 0}, 4, FromServer, "v3-has-properties"},
		{"v5 connack no props", []byte{0x20, 2, 0, 0}, 5, FromServer, "length"},
		{"v5 unsuback no props", []byte{0xB0, 2, 0, 1}, 5, FromServer, "length"},
		{"puback short", []byte{0x40, 1, 0}, 5, FromServer, "length"},
		{"ack pid 0", []byte{0x50, 2, 0, 0}, 4, FromServer, "zero-packet-id"},
		{"publish pid 0", pub(4, func(p *Packet) { p.Qos = 1 }), 4, FromServer, "zero-packet-id"},
		{"suback pid 0", []byte{0x90, 3, 0, 0, 0}, 4, FromServer, "zero-packet-id"},
		{"unsuback pid 0", []byte{0xB0, 2, 0, 0}, 4, FromServer, "zero-packet-id"},
		{"subscribe pid 0", mk(Subscribe, 5, func(p *Packet) { p.Filters = []Filter{{"a", 0}} }), 5, FromClient, "zero-packet-id"},
		{"unsubscribe pid 0", mk(Unsubscribe, 4, func(p *Packet) { p.Filters = []Filter{{"a", 0}} }), 4, FromClient, "zero-packet-id"},
		{"utf8 invalid", raw(0x30, 0, 2, 0xC3, 0x28), 4, FromServer, "utf8"},
		{"utf8 overlong", raw(0x30, 0, 2, 0xC0, 0x80), 4, FromServer, "utf8"},
		{"utf8 surrogate", raw(0x30, 0, 3, 0xED, 0xA0, 0x80), 4, FromServer, "utf8"},
		{"utf8 null", raw(0x30, 0, 3, 'a', 0, 'b'), 4, FromServer, "utf8"},
		{"utf8 beyond", raw(0x30, 0, 4, 0xF4, 0x90, 0x80, 0x80), 4, FromServer, "utf8"},
		{"utf8 in user prop", pub(5, func(p *Packet) { p.Props = []Prop{user("k", "\xff")} }), 5, FromServer, "utf8"},
		{"topic wildcard #", pub(4, func(p *Packet) { p.Topic = "a/#" }), 4, FromServer, "topic-wildcard"},
		{"topic wildcard +", pub(5, func(p *Packet) { p.Topic = "a+" }), 5, FromServer, "topic-wildcard"},
		{"empty topic v4", pub(4, func(p *Packet) { p.Topic = "" }), 4, FromServer, "empty-topic"},
		{"empty topic v5 no alias", pub(5, func(p *Packet) { p.Topic = "" }), 5, FromServer, "empty-topic"},
		{"string overruns", raw(0x30, 0, 9, 'a'), 4, FromServer, "length"},
		{"props overrun", raw(0x30, 0, 1, 'a', 5, 0x01, 1), 5, FromServer, "length"},
		{"prop truncated in block", raw(0x30, 0, 1, 'a', 2, 0x23, 1), 5, FromServer, "length"},
		{"prop vbi 5 bytes", raw(0x30, 0, 1, 'a', 6, 0x0B, 0x80, 0x80, 0x80, 0x80, 1), 5, FromServer, "vbi"},
		{"prop length 5 bytes", raw(0x30, 0, 1, 'a', 0x80, 0x80, 0x80, 0x80, 1), 5, FromServer, "vbi"},
		{"prop vbi nonminimal", raw(0x30, 0, 1, 'a', 3, 0x0B, 0x81, 0x00), 5, FromServer, "vbi-nonminimal"},
		{"prop length nonminimal", raw(0x30, 0, 1, 'a', 0x80, 0x00), 5, FromServer, "vbi-nonminimal"},
		{"unknown property", raw(0x30, 0, 1, 'a', 2, 0x7E, 1), 5, FromServer, "property-unknown"},
		{"unknown property 0", raw(0x30, 0, 1, 'a', 2, 0x00, 1), 5, FromServer, "property-unknown"},
		{"prop not allowed publish", pub(5, func(p *Packet) { p.Props = []Prop{{ID: PropSessionExpiry, Int: 1}} }), 5, FromServer, "property-not-allowed"},
		{"prop not allowed puback", mk(Puback, 5, func(p *Packet) { p.PacketID = 1; p.HasProps = true; p.Props = []Prop{{ID: PropContentType, Str: "x"}} }), 5, FromServer, "property-not-allowed"},
		{"will delay in publish", pub(5, func(p *Packet) { p.Props = []Prop{{ID: PropWillDelay, Int: 1}} }), 5, FromServer, "property-not-allowed"},
		{"reason string in publish", pub(5, func(p *Packet) { p.Props = []Prop{{ID: PropReasonString, Str: "x"}} }), 5, FromServer, "property-not-allowed"},
		{"subid in suback", mk(Suback, 5, func(p *Packet) {
			p.PacketID = 1
			p.ReasonCodes = []byte{0}
			p.Props = []Prop{{ID: PropSubscriptionID, Int: 1}}
		}), 5, FromServer, "property-not-allowed"},
		{"user prop ok elsewhere but topic alias in connack", mk(Connack, 5, func(p *Packet) { p.Props = []Prop{{ID: PropTopicAlias, Int: 1}} }), 5, FromServer, "property-not-allowed"},
		{"server disconnect session expiry", mk(Disconnect, 5, func(p *Packet) { p.HasProps = true; p.Props = []Prop{{ID: PropSessionExpiry, Int: 1}} }), 5, FromServer, "property-not-allowed"},
		{"dup topic alias", pub(5, func(p *Packet) { p.Props = []Prop{{ID: PropTopicAlias, Int: 1}, {ID: PropTopicAlias, Int: 1}} }), 5, FromServer, "dup-property"},
		{"dup reason string", mk(Puback, 5, func(p *Packet) {
			p.PacketID = 1
			p.HasProps = true
			p.Props = []Prop{{ID: PropReasonString, Str: "x"}, {ID: PropReasonString, Str: "x"}}
		}), 5, FromServer, "dup-property"},
		{"dup subid in subscribe", mk(Subscribe, 5, func(p *Packet) {
			p.PacketID = 1
			p.Filters = []Filter{{"a", 0}}
			p.Props = []Prop{{ID: PropSubscriptionID, Int: 1}, {ID: PropSubscriptionID, Int: 2}}
		}), 5, FromClient, "dup-property"},
		{"dup receive max connack", mk(Connack, 5, func(p *Packet) { p.Props = []Prop{{ID: PropReceiveMaximum, Int: 1}, {ID: PropReceiveMaximum, Int: 1}} }), 5, FromServer, "dup-property"},
		{"subid 0", pub(5, func(p *Packet) { p.Props = []Prop{{ID: PropSubscriptionID, Int: 0}} }), 5, FromServer, "subscription-id-zero"},
		{"subid from client", pub(5, func(p *Packet) { p.Props = []Prop{{ID: PropSubscriptionID, Int: 1}} }), 5, FromClient, "subid-from-client"},
		{"alias 0", pub(5, func(p *Packet) { p.Props = []Prop{{ID: PropTopicAlias, Int: 0}} }), 5, FromServer, "topic-alias-zero"},
		{"pfi 2", pub(5, func(p *Packet) { p.Props = []Prop{{ID: PropPayloadFormat, Int: 2}} }), 5, FromServer, "property-value"},
		{"max qos 2", mk(Connack, 5, func(p *Packet) { p.Props = []Prop{{ID: PropMaximumQos, Int: 2}} }), 5, FromServer, "property-value"},
		{"retain available 2", mk(Connack, 5, func(p *Packet) { p.Props = []Prop{{ID: PropRetainAvailable, Int: 2}} }), 5, FromServer, "property-value"},
		{"shared available 255", mk(Connack, 5, func(p *Packet) { p.Props = []Prop{{ID: PropSharedSubAvailable, Int: 255}} }), 5, FromServer, "property-value"},
		{"receive max 0", mk(Connack, 5, func(p *Packet) { p.Props = []Prop{{ID: PropReceiveMaximum, Int: 0}} }), 5, FromServer, "receive-maximum-zero"},
		{"max packet size 0", mk(Connack, 5, func(p *Packet) { p.Props = []Prop{{ID: PropMaximumPacketSize, Int: 0}} }), 5, FromServer, "maximum-packet-size-zero"},
		{"response topic wildcard", pub(5, func(p *Packet) { p.Props = []Prop{{ID: PropResponseTopic, Str: "a/+"}} }), 5, FromServer, "response-topic-wildcard"},
		{"auth data alone", mk(Connack, 5, func(p *Packet) { p.Props = []Prop{{ID: PropAuthData, Bin: []byte{1}}} }), 5, FromServer, "auth-data-without-method"},
		{"auth without method", mk(Auth, 5, func(p *Packet) { p.HasProps = true; p.ReasonCode = 0x18; p.Props = []Prop{user("a", "b")} }), 5, FromServer, "auth-method-missing"},
		{"connack flags reserved", []byte{0x20, 3, 2, 0, 0}, 5, FromServer, "connack-flags"},
		{"connack flags reserved v4", []byte{0x20, 2, 0x80, 0}, 4, FromServer, "connack-flags"},
		{"connack v3 session present", []byte{0x20, 2, 1, 0}, 3, FromServer, "v3-session-present"},
		{"session present with error v5", []byte{0x20, 3, 1, 0x87, 0}, 5, FromServer, "session-present-with-error"},
		{"session present with error v4", []byte{0x20, 2, 1, 5}, 4, FromServer, "session-present-with-error"},
		{"connack code 6 v4", []byte{0x20, 2, 0, 6}, 4, FromServer, "reason-code"},
		{"connack code 0x80 v4", []byte{0x20, 2, 0, 0x80}, 4, FromServer, "reason-code"},
		{"connack code 5 v5", []byte{0x20, 3, 0, 5, 0}, 5, FromServer, "reason-code"},
		{"connack code 0x91 v5", []byte{0x20, 3, 0, 0x91, 0}, 5, FromServer, "reason-code"},
		{"puback code 0x92", []byte{0x40, 3, 0, 1, 0x92}, 5, FromServer, "reason-code"},
		{"pubrec code 0x01", []byte{0x50, 3, 0, 1, 0x01}, 5, FromServer, "reason-code"},
		{"pubrel code 0x80", []byte{0x62, 3, 0, 1, 0x80}, 5, FromServer, "reason-code"},
		{"pubcomp code 0x10", []byte{0x70, 3, 0, 1, 0x10}, 5, FromServer, "reason-code"},
		{"suback code 3 v4", []byte{0x90, 3, 0, 1, 3}, 4, FromServer, "reason-code"},
		{"suback code 0x87 v4", []byte{0x90, 3, 0, 1, 0x87}, 4, FromServer, "reason-code"},
		{"suback code 0x11 v5", []byte{0x90, 4, 0, 1, 0, 0x11}, 5, FromServer, "reason-code"},
		{"unsuback code 0x01 v5", []byte{0xB0, 4, 0, 1, 0, 0x01}, 5, FromServer, "reason-code"},
		{"disconnect code 0x01", []byte{0xE0, 1, 0x01}, 5, FromServer, "reason-code"},
		{"disconnect code 0x91", []byte{0xE0, 1, 0x91}, 5, FromServer, "reason-code"},
		{"server disconnect with will", []byte{0xE0, 1, 0x04}, 5, FromServer, "reason-code-direction"},
		{"client disconnect takeover", []byte{0xE0, 1, 0x8E}, 5, FromClient, "reason-code-direction"},
		{"auth code 0x01", []byte{0xF0, 1, 0x01}, 5, FromServer, "reason-code"},
		{"server reauth", []byte{0xF0, 1, 0x19}, 5, FromServer, "reason-code-direction"},
		{"client auth success", []byte{0xF0, 0}, 5, FromClient, "reason-code-direction"},
		{"suback empty v4", []byte{0x90, 2, 0, 1}, 4, FromServer, "empty-list"},
		{"suback empty v5", []byte{0x90, 3, 0, 1, 0}, 5, FromServer, "empty-list"},
		{"unsuback empty v5", []byte{0xB0, 3, 0, 1, 0}, 5, FromServer, "empty-list"},
		{"subscribe empty", []byte{0x82, 2, 0, 1}, 4, FromClient, "empty-list"},
		{"unsubscribe empty v5", []byte{0xA2, 3, 0, 1, 0}, 5, FromClient, "empty-list"},
		{"subscribe no options byte", []byte{0x82, 6, 0, 1, 0, 0, 1, 'a'}, 5, FromClient, "length"},
		{"subscribe reserved bits v5", mk(Subscribe, 5, func(p *Packet) { p.PacketID = 1; p.Filters = []Filter{{"a", 0x40}} }), 5, FromClient, "subscribe-options"},
		{"subscribe reserved bits v4", mk(Subscribe, 4, func(p *Packet) { p.PacketID = 1; p.Filters = []Filter{{"a", 0x04}} }), 4, FromClient, "subscribe-options"},
		{"subscribe qos 3", mk(Subscribe, 5, func(p *Packet) { p.PacketID = 1; p.Filters = []Filter{{"a", 3}} }), 5, FromClient, "subscribe-options"},
		{"subscribe rh 3", mk(Subscribe, 5, func(p *Packet) { p.PacketID = 1; p.Filters = []Filter{{"a", 0x30}} }), 5, FromClient, "subscribe-options"},
		{"subscribe shared nolocal", mk(Subscribe, 5, func(p *Packet) { p.PacketID = 1; p.Filters = []Filter{{"$share/g/a", 0x04}} }), 5, FromClient, "nolocal-shared"},
		{"filter a/#/b", mk(Subscribe, 4, func(p *Packet) { p.PacketID = 1; p.Filters = []Filter{{"a/#/b", 0}} }), 4, FromClient, "topic-filter"},
		{"filter a#", mk(Subscribe, 4, func(p *Packet) { p.PacketID = 1; p.Filters = []Filter{{"a/b#", 0}} }), 4, FromClient, "topic-filter"},
		{"filter a+", mk(Unsubscribe, 5, func(p *Packet) { p.PacketID = 1; p.Filters = []Filter{{"a+/b", 0}} }), 5, FromClient, "topic-filter"},
		{"filter empty", mk(Subscribe, 4, func(p *Packet) { p.PacketID = 1; p.Filters = []Filter{{"", 0}} }), 4, FromClient, "empty-filter"},
		{"filter $share//a", mk(Subscribe, 5, func(p *Packet) { p.PacketID = 1; p.Filters = []Filter{{"$share//a", 0}} }), 5, FromClient, "shared-filter"},
		{"filter $share/g/", mk(Subscribe, 5, func(p *Packet) { p.PacketID = 1; p.Filters = []Filter{{"$share/g/", 0}} }), 5, FromClient, "shared-filter"},
		{"filter $share/g", mk(Subscribe, 5, func(p *Packet) { p.PacketID = 1; p.Filters = []Filter{{"$share/g", 0}} }), 5, FromClient, "shared-filter"},
		{"filter $share/+/a", mk(Subscribe, 5, func(p *Packet) { p.PacketID = 1; p.Filters = []Filter{{"$share/+/a", 0}} }), 5, FromClient, "shared-filter"},
		// CONNECT
		{"connect bad name", mk(Connect, 4, func(p *Packet) { p.ProtoName = "MQTX" }), 0, FromClient, "protocol-name"},
		{"connect v3 with MQTT", mk(Connect, 3, func(p *Packet) { p.ProtoName = "MQTT" }), 0, FromClient, "protocol-name"},
		{"connect version 6", mk(Connect, 4, func(p *Packet) { p.ProtoVersion = 6 }), 0, FromClient, "protocol-version"},
		{"connect reserved flag", mk(Connect, 4, func(p *Packet) { p.ConnectFlags = 1 }), 0, FromClient, "connect-reserved-flag"},
		{"connect will qos 3", mk(Connect, 5, func(p *Packet) { p.ConnectFlags = FlagWill | 0x18; p.WillTopic = "w" }), 0, FromClient, "will-qos3"},
		{"connect will qos without will", mk(Connect, 4, func(p *Packet) { p.ConnectFlags = FlagWillQos1 }), 0, FromClient, "will-flags"},
		{"connect will retain without will", mk(Connect, 5, func(p *Packet) { p.ConnectFlags = FlagWillRetain }), 0, FromClient, "will-flags"},
		{"connect password only v4", mk(Connect, 4, func(p *Packet) { p.ConnectFlags = FlagPassword; p.Password = []byte("x") }), 0, FromClient, "password-without-username"},
		{"connect will topic wildcard", mk(Connect, 4, func(p *Packet) { p.ConnectFlags = FlagWill; p.WillTopic = "a/#" }), 0, FromClient, "topic-wildcard"},
		{"connect will topic empty", mk(Connect, 5, func(p *Packet) { p.ConnectFlags = FlagWill }), 0, FromClient, "empty-topic"},
		{"connect username not utf8", mk(Connect, 4, func(p *Packet) { p.ConnectFlags = FlagUsername; p.Username = []byte{0xFF} }), 0, FromClient, "utf8"},
		{"connect will prop not allowed", mk(Connect, 5, func(p *Packet) {
			p.ConnectFlags = FlagWill
			p.WillTopic = "w"
			p.WillProps = []Prop{{ID: PropTopicAlias, Int: 1}}
		}), 0, FromClient, "property-not-allowed"},
		{"connect will delay in connect props", mk(Connect, 5, func(p *Packet) { p.Props = []Prop{{ID: PropWillDelay, Int: 1}} }), 0, FromClient, "property-not-allowed"},
		{"connect request problem info 2", mk(Connect, 5, func(p *Packet) { p.Props = []Prop{{ID: PropRequestProblemInfo, Int: 2}} }), 0, FromClient, "property-value"},
		{"connect trailing", cat(raw(0x10, cat(s("MQTT"), []byte{4, 2, 0, 0}, s("a"), []byte{9})...)), 0, FromClient, "length"},
		{"connect missing password", raw(0x10, cat(s("MQTT"), []byte{4, 0xC2, 0, 0}, s("a"), s("u"))...), 0, FromClient, "length"},
		{"connect v5 nonminimal remaining length", cat([]byte{0x10, 0x8D, 0x00}, s("MQTT"), []byte{5, 2, 0, 0, 0}, s("")), 0, FromClient, "vbi-nonminimal"},
	}
	for _, c := range cases {
		p, err := Decode(c.b, c.v, c.dir)
		if RuleOf(err) != c.rule {
			t.Errorf("%s: % X: got rule %q (%v), want %q", c.name, clip(c.b), RuleOf(err), err, c.rule)
		}
		if err != nil && p != nil {
			t.Errorf("%s: strict Decode returned a packet together with an error", c.name)
		}
		DecodeLenient(c.b, c.v) // must not panic
	}
}

func clip(b []byte) []byte {
	if len(b) > 48 {
		return b[:48]
	}
	return b
}

// Things the standards explicitly permit must pass the strict decoder.
func TestStrictPermits(t *testing.T) {
	cases := []struct {
		name string
		b    []byte
		v    byte
		dir  Dir
	}{
		{"v5 puback len 2", []byte{0x40, 2, 0, 1}, 5, FromServer},
		{"v5 puback len 3", []byte{0x40, 3, 0, 1, 0x10}, 5, FromServer},
		{"v5 puback len 4", []byte{0x40, 4, 0, 1, 0, 0}, 5, FromServer},
		{"v5 disconnect len 0 server", []byte{0xE0, 0}, 5, FromServer},
		{"v5 disconnect len 1 client will", []byte{0xE0, 1, 4}, 5, FromClient},
		{"v5 disconnect session expiry from client", []byte{0xE0, 7, 0, 5, 0x11, 0, 0, 0, 9}, 5, FromClient},
		{"v5 disconnect 0x8C (table 2.4)", []byte{0xE0, 1, 0x8C}, 5, FromServer},
		{"v5 auth continue from client", []byte{0xF0, 6, 0x18, 4, 0x15, 0, 1, 'm'}, 5, FromClient},
		{"v5 publish repeated subids", []byte{0x30, 8, 0, 1, 'a', 4, 0x0B, 1, 0x0B, 2}, 5, FromServer},
		{"v5 publish empty topic with alias", []byte{0x30, 6, 0, 0, 3, 0x23, 0, 1}, 5, FromServer},
		{"v5 connect password only", cat(raw(0x10, cat(s("MQTT"), []byte{5, 0x40, 0, 0, 0}, s(""), s("pw"))...)), 0, FromClient},
		{"v4 suback failure", []byte{0x90, 3, 0, 1, 0x80}, 4, FromServer},
		{"v4 connack session present", []byte{0x20, 2, 1, 0}, 4, FromServer},
		{"v4 filter $share//a is an ordinary filter", []byte{0x82, 0x0E, 0, 1, 0, 9, '$', 's', 'h', 'a', 'r', 'e', '/', '/', 'a', 0}, 4, FromClient},
		{"v5 filter $share alone is ordinary", []byte{0x82, 0x0C, 0, 1, 0, 0, 6, '$', 's', 'h', 'a', 'r', 'e', 0}, 5, FromClient},
		{"topic with BOM and noncharacter", raw(0x30, 0, 6, 0xEF, 0xBB, 0xBF, 0xEF, 0xBF, 0xBF), 4, FromServer},
		{"dup retained qos2", []byte{0x3D, 5, 0, 1, 'a', 0, 1}, 4, FromServer},
	}
	for _, c := range cases {
		if _, err := Decode(c.b, c.v, c.dir); err != nil {
			t.Errorf("%s: % X: %v", c.name, c.b, err)
		}
	}
}

func TestSplitStream(t *testing.T) {
	a := []byte{0xC0, 0}
	b := raw(0x30, append([]byte{0, 1, 'a'}, make([]byte, 300)...)...)
	c := []byte{0x40, 2, 0, 1}
	stream := cat(a, b, c)
	for cut := 0; cut <= len(stream); cut++ {
		pk, n, err := SplitStream(stream[:cut])
		if err != nil {
			t.Fatalf("cut %d: %v", cut, err)
		}
		wantN, wantK := 0, 0
		for _, x := range [][]byte{a, b, c} {
			if wantN+len(x) > cut {
				break
			}
			wantN += len(x)
			wantK++
		}
		if n != wantN || len(pk) != wantK {
			t.Fatalf("cut %d: consumed %d (%d packets), want %d (%d)", cut, n, len(pk), wantN, wantK)
		}
	}
	pk, n, err := SplitStream(cat(a, []byte{0x30, 0xFF, 0xFF, 0xFF, 0xFF, 0x01}))
	if RuleOf(err) != "remaining-length" || n != 2 || len(pk) != 1 {
		t.Errorf("malformed length after a good packet: n=%d pk=%d err=%v", n, len(pk), err)
	}
	if pk, n, err := SplitStream(nil); err != nil || n != 0 || len(pk) != 0 {
		t.Errorf("empty stream: %v %d %v", pk, n, err)
	}
}

func mochiVersion(pk *mp.Packet) byte {
	switch pk.ProtocolVersion {
	case 3, 5:
		return pk.ProtocolVersion
	}
	return 4
}

// 2. Sanity cross-check against mochi's own packet catalogue. Only the test
// imports mochi; the codec does not.
func TestCrossCheckMochiCatalogue(t *testing.T) {
	types := make([]int, 0, len(mp.TPacketData))
	for ty := range mp.TPacketData {
		types = append(types, int(ty))
	}
	sort.Ints(types)
	checked, rejected := 0, 0
	for _, ty := range types {
		for _, c := range mp.TPacketData[byte(ty)] {
			if c.Expect != nil || c.FailFirst != nil || c.RawBytes == nil || c.Packet == nil {
				continue
			}
			checked++
			// Where a case carries ActualBytes, RawBytes is only the input of a
			// mutation test and ActualBytes is what mochi really writes.
			wire := c.RawBytes
			if c.ActualBytes != nil {
				wire = c.ActualBytes
			}
			name := fmt.Sprintf("%s case %d %q group=%q", TypeName(byte(ty)), c.Case, c.Desc, c.Group)
			v := mochiVersion(c.Packet)
			p, err := DecodeLenient(wire, v)
			if err != nil {
				t.Errorf("%s: lenient decode failed: %v\n  % X", name, err, wire)
				continue
			}
			if p.Type != byte(ty) {
				t.Errorf("%s: type %d", name, p.Type)
			}
			if p.Type == Connect && p.Version != v {
				t.Errorf("%s: version %d, mochi %d", name, p.Version, v)
			}
			// Field agreement is required where RawBytes is the image of Packet,
			// i.e. in the groups mochi itself decodes ("" and "decode").
			if c.Group == "" || c.Group == "decode" {
				w := c.Packet
				if p.PacketID != w.PacketID {
					t.Errorf("%s: packet id %d, mochi %d", name, p.PacketID, w.PacketID)
				}
				if p.Topic != w.TopicName {
					t.Errorf("%s: topic %q, mochi %q", name, p.Topic, w.TopicName)
				}
				if p.Type == Publish && !bytes.Equal(p.Payload, w.Payload) {
					t.Errorf("%s: payload % X, mochi % X", name, p.Payload, w.Payload)
				}
				if p.ReasonCode != w.ReasonCode {
					t.Errorf("%s: reason code 0x%02X, mochi 0x%02X", name, p.ReasonCode, w.ReasonCode)
				}
				if (p.Type == Suback || p.Type == Unsuback) && !bytes.Equal(p.ReasonCodes, w.ReasonCodes) {
					t.Errorf("%s: reason codes % X, mochi % X", name, p.ReasonCodes, w.ReasonCodes)
				}
				if p.Type == Connect {
					if p.ClientID != w.Connect.ClientIdentifier || p.KeepAlive != w.Connect.Keepalive ||
						p.WillTopic != w.Connect.WillTopic || !bytes.Equal(p.WillPayload, w.Connect.WillPayload) ||
						!bytes.Equal(p.Username, w.Connect.Username) || !bytes.Equal(p.Password, w.Connect.Password) {
						t.Errorf("%s: connect fields differ", name)
					}
				}
				if p.Type == Subscribe || p.Type == Unsubscribe {
					if len(p.Filters) != len(w.Filters) {
						t.Errorf("%s: %d filters, mochi %d", name, len(p.Filters), len(w.Filters))
					} else {
						for i := range p.Filters {
							if p.Filters[i].Filter != w.Filters[i].Filter {
								t.Errorf("%s: filter %d %q, mochi %q", name, i, p.Filters[i].Filter, w.Filters[i].Filter)
							}
						}
					}
				}
			}
			// strict verdict, both directions where both may send the type
			dir := dirOf(byte(ty))
			if _, serr := Decode(wire, v, dir); serr != nil {
				if ty == int(Disconnect) || ty == int(Publish) || ty == int(Auth) || (ty >= int(Puback) && ty <= int(Pubcomp)) {
					if _, cerr := Decode(wire, v, FromClient); cerr == nil {
						continue // fine as a client packet
					}
				}
				rejected++
				t.Logf("STRICT-REJECT %s v%d: %v\n    % X", name, v, serr, clip(wire))
			}
		}
	}
	t.Logf("%d catalogue cases mochi regards as valid were checked, %d rejected by the strict decoder", checked, rejected)
	if checked < 80 {
		t.Errorf("only %d catalogue cases checked", checked)
	}
}

// 3. totality: no input makes any decode entry point panic.
func TestTotalityFuzz(t *testing.T) {
	rng := rand.New(rand.NewSource(20260921))
	var seeds [][]byte
	for _, v := range []byte{3, 4, 5} {
		for _, p := range corpus(v) {
			b := Encode(p)
			if len(b) < 400 {
				seeds = append(seeds, b)
			}
		}
	}
	for _, cs := range mp.TPacketData {
		for _, c := range cs {
			if c.RawBytes != nil {
				seeds = append(seeds, c.RawBytes)
			}
			if c.ActualBytes != nil {
				seeds = append(seeds, c.ActualBytes)
			}
		}
	}
	sort.Slice(seeds, func(i, j int) bool { return bytes.Compare(seeds[i], seeds[j]) < 0 }) // map order is random
	run := func(b []byte) {
		defer func() {
			if r := recover(); r != nil {
				t.Fatalf("panic on % X: %v", b, r)
			}
		}()
		for _, v := range []byte{0, 3, 4, 5, 77} {
			for _, d := range []Dir{0, FromClient, FromServer} {
				if p, err := Decode(b, v, d); err == nil {
					// whatever strict accepts must be exactly re-encodable
					// (a non-minimal remaining length is tolerated before v5)
					rl, n, _ := DecodeVBI(b[1:])
					if re := Encode(p); !bytes.Equal(re, b) && n == vbiLen(rl) {
						t.Fatalf("v%d %v: accepted % X but re-encodes as % X", v, d, b, re)
					}
				}
			}
			DecodeLenient(b, v)
		}
		pk, n, _ := SplitStream(b)
		if n < 0 || n > len(b) {
			t.Fatalf("SplitStream consumed %d of %d", n, len(b))
		}
		sum := 0
		for _, x := range pk {
			sum += len(x)
		}
		if sum != n {
			t.Fatalf("SplitStream packets total %d, consumed %d", sum, n)
		}
		DecodeVBI(b)
		if len(b) > 1 {
			DecodeVBI(b[1:])
		}
	}
	const N = 200000
	for i := 0; i < N; i++ {
		var b []byte
		switch i % 4 {
		case 0: // pure random
			b = make([]byte, rng.Intn(40))
			rng.Read(b)
		case 1: // random body under a consistent fixed header
			body := make([]byte, rng.Intn(30))
			rng.Read(body)
			if len(body) > 4 && rng.Intn(2) == 0 { // small length prefixes reach deeper
				body[0], body[2] = 0, byte(rng.Intn(4))
			}
			b = raw(byte(rng.Intn(256)), body...)
		default: // mutation of a valid packet
			s := seeds[rng.Intn(len(seeds))]
			b = append([]byte{}, s...)
			for k := rng.Intn(4) + 1; k > 0 && len(b) > 0; k-- {
				switch rng.Intn(5) {
				case 0:
					b[rng.Intn(len(b))] ^= 1 << uint(rng.Intn(8))
				case 1:
					b[rng.Intn(len(b))] = byte(rng.Intn(256))
				case 2:
					b = b[:rng.Intn(len(b))]
				case 3:
					at := rng.Intn(len(b) + 1)
					b = append(b[:at], append([]byte{byte(rng.Intn(256))}, b[at:]...)...)
				case 4:
					at := rng.Intn(len(b))
					b = append(b[:at], b[at+1:]...)
				}
			}
			if rng.Intn(3) == 0 && len(b) > 1 { // repair the remaining length so that bodies get parsed
				b = raw(b[0], b[min(len(b), 2):]...)
			}
		}
		run(b)
	}
}

func min(a, b int) int {
	if a < b {
		return a
	}
	return b
}
