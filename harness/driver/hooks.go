package driver

import (
	"errors"
	"strings"
	"sync"

	mqtt "github.com/mochi-mqtt/server/v2"
	"github.com/mochi-mqtt/server/v2/packets"
)

// recHook records hook invocations; it modifies nothing.
type recHook struct {
	mqtt.HookBase
	mu  sync.Mutex
	evs []HookEv
	h   *History
}

func (r *recHook) ID() string { return "verif-rec" }
func (r *recHook) Provides(b byte) bool {
	switch b {
	case mqtt.OnConnect, mqtt.OnSessionEstablished, mqtt.OnDisconnect, mqtt.OnPacketSent,
		mqtt.OnSubscribed, mqtt.OnUnsubscribed, mqtt.OnPublished, mqtt.OnPublishDropped,
		mqtt.OnRetainMessage, mqtt.OnRetainPublished, mqtt.OnQosPublish, mqtt.OnQosComplete,
		mqtt.OnQosDropped, mqtt.OnPacketIDExhausted, mqtt.OnWillSent, mqtt.OnClientExpired,
		mqtt.OnRetainedExpired:
		return true
	}
	return false
}

func (r *recHook) add(e HookEv) {
	r.mu.Lock()
	r.evs = append(r.evs, e)
	r.mu.Unlock()
}

func (r *recHook) take() []HookEv {
	r.mu.Lock()
	defer r.mu.Unlock()
	e := r.evs
	r.evs = nil
	if e == nil {
		e = []HookEv{}
	}
	return e
}

func msgID(p []byte) string {
	s := string(p)
	if i := strings.IndexByte(s, '|'); i >= 0 {
		s = s[:i]
	}
	return s
}

func (r *recHook) OnConnect(cl *mqtt.Client, pk packets.Packet) error {
	r.h.bind(cl)
	return nil
}
func (r *recHook) OnSessionEstablished(cl *mqtt.Client, pk packets.Packet) {
	r.add(HookEv{H: "established", C: cl.ID})
}
func (r *recHook) OnDisconnect(cl *mqtt.Client, err error, expire bool) {
	p := 0
	if expire {
		p = 1
	}
	r.add(HookEv{H: "disconnect", C: cl.ID, P: p})
}
func (r *recHook) OnPacketSent(cl *mqtt.Client, pk packets.Packet, b []byte) {
	r.h.sent(cl, pk, b)
}
func (r *recHook) OnSubscribed(cl *mqtt.Client, pk packets.Packet, codes []byte) {
	r.add(HookEv{H: "subscribed", C: cl.ID, P: int(pk.PacketID)})
}
func (r *recHook) OnUnsubscribed(cl *mqtt.Client, pk packets.Packet) {
	r.add(HookEv{H: "unsubscribed", C: cl.ID, P: int(pk.PacketID)})
}
func (r *recHook) OnPublished(cl *mqtt.Client, pk packets.Packet) {
	r.add(HookEv{H: "published", C: cl.ID, M: msgID(pk.Payload), TS: pk.TopicName})
}
func (r *recHook) OnPublishDropped(cl *mqtt.Client, pk packets.Packet) {
	r.add(HookEv{H: "dropped", C: cl.ID, M: msgID(pk.Payload), TS: pk.TopicName, Q: int(pk.FixedHeader.Qos)})
}
func (r *recHook) OnRetainMessage(cl *mqtt.Client, pk packets.Packet, v int64) {
	r.add(HookEv{H: "retain", C: cl.ID, M: msgID(pk.Payload), TS: pk.TopicName, P: int(v)})
}
func (r *recHook) OnRetainPublished(cl *mqtt.Client, pk packets.Packet) {
	r.add(HookEv{H: "retain_published", C: cl.ID, M: msgID(pk.Payload), TS: pk.TopicName})
}
func (r *recHook) OnQosPublish(cl *mqtt.Client, pk packets.Packet, sent int64, resends int) {
	r.add(HookEv{H: "qos_publish", C: cl.ID, M: msgID(pk.Payload), P: int(pk.PacketID), T: int(pk.FixedHeader.Type)})
}
func (r *recHook) OnQosComplete(cl *mqtt.Client, pk packets.Packet) {
	r.add(HookEv{H: "qos_complete", C: cl.ID, P: int(pk.PacketID), T: int(pk.FixedHeader.Type)})
}
func (r *recHook) OnQosDropped(cl *mqtt.Client, pk packets.Packet) {
	r.add(HookEv{H: "qos_dropped", C: cl.ID, M: msgID(pk.Payload), P: int(pk.PacketID), T: int(pk.FixedHeader.Type)})
}
func (r *recHook) OnPacketIDExhausted(cl *mqtt.Client, pk packets.Packet) {
	r.add(HookEv{H: "pid_exhausted", C: cl.ID, M: msgID(pk.Payload)})
}
func (r *recHook) OnWillSent(cl *mqtt.Client, pk packets.Packet) {
	r.add(HookEv{H: "will_sent", C: cl.ID, M: msgID(pk.Payload), TS: pk.TopicName})
}
func (r *recHook) OnClientExpired(cl *mqtt.Client) { r.add(HookEv{H: "client_expired", C: cl.ID}) }
func (r *recHook) OnRetainedExpired(f string)      { r.add(HookEv{H: "retained_expired", TS: f}) }

// aclHook implements the permission relation of Config (Auth == "acl") or allow-all ("allow").
type aclHook struct {
	mqtt.HookBase
	cfg *Config
}

func (a *aclHook) ID() string { return "verif-acl" }
func (a *aclHook) Provides(b byte) bool {
	if b == mqtt.OnConnectAuthenticate {
		return a.cfg.Auth != "acl_only" // "acl_only": authentication is left to the scripted hooks (C19)
	}
	return b == mqtt.OnACLCheck
}
func (a *aclHook) OnConnectAuthenticate(cl *mqtt.Client, pk packets.Packet) bool {
	for _, d := range a.cfg.DenyConn {
		if d == cl.ID {
			return false
		}
	}
	return true
}
func (a *aclHook) OnACLCheck(cl *mqtt.Client, topic string, write bool) bool {
	rel := a.cfg.DenyRead
	if write {
		rel = a.cfg.DenyWrite
	}
	for _, d := range rel {
		if d[0] == cl.ID && d[1] == topic {
			return false
		}
	}
	return true
}

// scriptHook is one scripted hook of a C19 stack.
type scriptHook struct {
	mqtt.HookBase
	s       ScriptedHook
	r       *recHook
	initArr chan struct{} // non-nil: Init reports here and waits for initRel (a hook attached to a broker that carries traffic)
	initRel chan struct{}
}

func (h *scriptHook) Init(config any) error {
	if h.initArr != nil {
		h.initArr <- struct{}{}
		<-h.initRel
	}
	return nil
}

var errPlain = errors.New("scripted plain error")

func (h *scriptHook) ID() string { return "verif-script-" + h.s.Name }
func (h *scriptHook) Provides(b byte) bool {
	switch b {
	case mqtt.OnPublish:
		return h.s.OnPublish != ""
	case mqtt.OnPacketRead:
		return h.s.OnRead != ""
	case mqtt.OnSubscribe:
		return h.s.OnSub != ""
	case mqtt.OnConnectAuthenticate:
		return h.s.Auth != ""
	case mqtt.OnACLCheck:
		return h.s.ACL != ""
	}
	return false
}
func (h *scriptHook) OnConnectAuthenticate(cl *mqtt.Client, pk packets.Packet) bool {
	h.r.add(HookEv{H: "s_auth", C: h.s.Name})
	return h.s.Auth == "allow"
}
func (h *scriptHook) OnACLCheck(cl *mqtt.Client, topic string, write bool) bool {
	return h.s.ACL == "allow"
}
func (h *scriptHook) OnPublish(cl *mqtt.Client, pk packets.Packet) (packets.Packet, error) {
	h.r.add(HookEv{H: "s_publish", C: h.s.Name, M: msgID(pk.Payload), TS: pk.TopicName})
	sp := h.s.OnPublish
	switch {
	case sp == "pass":
		return pk, nil
	case strings.HasPrefix(sp, "topic:"):
		pk.TopicName = sp[6:]
		return pk, nil
	case strings.HasPrefix(sp, "payload:"):
		pk.Payload = []byte(sp[8:])
		return pk, nil
	case sp == "reject":
		return pk, packets.ErrRejectPacket
	case sp == "ignore":
		return pk, packets.CodeSuccessIgnore
	case sp == "code":
		return pk, packets.ErrQuotaExceeded
	case sp == "error":
		return pk, errPlain
	}
	return pk, nil
}
func (h *scriptHook) OnPacketRead(cl *mqtt.Client, pk packets.Packet) (packets.Packet, error) {
	if pk.FixedHeader.Type != packets.Publish {
		return pk, nil
	}
	h.r.add(HookEv{H: "s_read", C: h.s.Name, M: msgID(pk.Payload), TS: pk.TopicName})
	sp := h.s.OnRead
	switch {
	case sp == "reject":
		return pk, packets.ErrRejectPacket
	case strings.HasPrefix(sp, "topic:"):
		pk.TopicName = sp[6:]
		return pk, nil
	}
	return pk, nil
}
func (h *scriptHook) OnSubscribe(cl *mqtt.Client, pk packets.Packet) packets.Packet {
	if h.s.OnSub == "qos0" {
		for i := range pk.Filters {
			pk.Filters[i].Qos = 0
		}
	}
	return pk
}
