package driver

// Storage extension of the driver (properties C20, C21): a History whose broker carries a
// persistence hook, can be restarted on the same store, and whose storage-hook calls ("writes") and
// client-visible acknowledgements are recorded in ONE common sequence. A cut-off on the write
// counter simulates the death of the process between two writes. No oracle lives here: the
// recorded lines are judged by TLC (spec/TraceStorage20.tla, spec/TraceStorage21.tla).

import (
	"log/slog"
	"math"
	"net"
	"sort"
	"sync"
	"time"

	mqtt "github.com/mochi-mqtt/server/v2"
	"github.com/mochi-mqtt/server/v2/hooks/storage"
	"github.com/mochi-mqtt/server/v2/packets"
	"github.com/mochi-mqtt/server/v2/system"
)

// StoreFactory returns a FRESH, uninitialised instance of a persistence hook bound to the SAME
// store location on every call, together with its Init configuration.
type StoreFactory func() (mqtt.Hook, any)

// newServer builds a broker for cfg exactly like NewHistory does (copied from run.go).
func newServer(cfg Config) *mqtt.Server {
	caps := mqtt.NewDefaultServerCapabilities()
	caps.MaximumQos = byte(cfg.MaxQos)
	caps.RetainAvailable = byte(cfg.RetainAvail)
	caps.ReceiveMaximum = uint16(cfg.RecvMax)
	caps.MaximumInflight = uint16(cfg.MaxInflight)
	caps.MaximumClientWritesPending = int32(cfg.MaxPending)
	caps.MaximumMessageExpiryInterval = cfg.MaxMsgExpiry
	if cfg.MaxSessExpiry >= 0 {
		caps.MaximumSessionExpiryInterval = uint32(cfg.MaxSessExpiry)
	} else {
		caps.MaximumSessionExpiryInterval = math.MaxUint32
	}
	caps.TopicAliasMaximum = uint16(cfg.TopicAliasMax)
	if cfg.MaxClients > 0 {
		caps.MaximumClients = cfg.MaxClients
	}
	caps.MaximumPacketSize = uint32(cfg.MaxPacketSize)
	if cfg.MinProto > 0 {
		caps.MinimumProtocolVersion = byte(cfg.MinProto)
	}
	caps.Compatibilities.ObscureNotAuthorized = cfg.Obscure
	opts := &mqtt.Options{
		Capabilities:             caps,
		ClientNetWriteBufferSize: cfg.WriteBuf,
		InlineClient:             cfg.Inline,
		Logger:                   slog.New(slog.NewTextHandler(nullWriter{}, &slog.HandlerOptions{Level: slog.LevelError + 8})),
	}
	srv := mqtt.New(opts)
	if cfg.MaxPacketID > 0 {
		srv.VerifSetMaxPacketID(uint32(cfg.MaxPacketID))
	}
	return srv
}

// ------------------------------------------------------------------------------------------ log

// LogEnt is one entry of the common sequence: a storage-hook call ("w") or a packet the broker sent
// to a client ("a": CONNACK, SUBACK, UNSUBACK, PUBACK, PUBREC, PUBREL, PUBCOMP, PUBLISH).
type LogEnt struct {
	N       int      `json:"n"`       // position in the common sequence, 1, 2, ...
	K       string   `json:"k"`       // "w" | "a"
	W       int      `json:"w"`       // write number (0 for acknowledgements)
	Dropped bool     `json:"dropped"` // the write was NOT forwarded to the store (issued after the crash point)
	H       string   `json:"h"`       // hook / packet name
	C       string   `json:"c"`       // client id
	Conn    string   `json:"conn"`    // connection name of the client object ("" = none: restored or unknown)
	TO      bool     `json:"to"`      // the client object was already superseded (taken over) when the call was made
	Expire  bool     `json:"expire"`  // OnDisconnect: expire argument
	Pid     int      `json:"pid"`
	Ty      int      `json:"ty"` // packet type of the record / packet
	Topic   string   `json:"topic"`
	M       string   `json:"m"`
	Qos     int      `json:"qos"`
	R       int      `json:"r"`     // OnRetainMessage: r
	Fs      []string `json:"fs"`    // filters of OnSubscribed / OnUnsubscribed
	Codes   []int    `json:"codes"` // reason codes (OnSubscribed, SUBACK, UNSUBACK)
	SP      bool     `json:"sp"`    // CONNACK: session present
	RC      int      `json:"rc"`    // reason code of the packet
	cl      *mqtt.Client
}

// CrashHook wraps a persistence hook: it forwards every storage-relevant hook call to it, counting
// them as writes 1, 2, ...; with a cut-off n it silently drops every write after the n-th.
type CrashHook struct {
	mqtt.HookBase
	inner mqtt.Hook
	h     *History
	mu    sync.Mutex
	n     int
	w     int
	cut   int // < 0: no cut-off
	dead  bool
	trip  bool
	log   []LogEnt
}

func (c *CrashHook) ID() string { return "verif-crash" }
func (c *CrashHook) Provides(b byte) bool {
	if b == mqtt.OnPacketSent {
		return true
	}
	return c.inner.Provides(b)
}
func (c *CrashHook) SetOpts(l *slog.Logger, o *mqtt.HookOptions) {
	c.HookBase.SetOpts(l, o)
	c.inner.SetOpts(l, o)
}
func (c *CrashHook) Init(config any) error { return c.inner.Init(config) }
func (c *CrashHook) Stop() error           { return c.inner.Stop() }

// Kill drops every write from now on (the process is dead).
func (c *CrashHook) Kill() { c.mu.Lock(); c.dead = true; c.mu.Unlock() }

// Tripped reports whether a write has been dropped because of the cut-off.
func (c *CrashHook) Tripped() bool { c.mu.Lock(); defer c.mu.Unlock(); return c.trip }

// Writes returns the number of writes issued so far.
func (c *CrashHook) Writes() int { c.mu.Lock(); defer c.mu.Unlock(); return c.w }

func (c *CrashHook) take() []LogEnt {
	c.mu.Lock()
	defer c.mu.Unlock()
	l := c.log
	c.log = nil
	if l == nil {
		l = []LogEnt{}
	}
	return l
}

func (c *CrashHook) ent(h string, cl *mqtt.Client) LogEnt {
	e := LogEnt{H: h, Fs: []string{}, Codes: []int{}}
	if cl != nil {
		e.C = cl.ID
		e.cl = cl
		e.TO = cl.IsTakenOver()
		if c.h != nil {
			c.h.mu.Lock()
			if k := c.h.byCl[cl]; k != nil {
				e.Conn = k.name
			}
			c.h.mu.Unlock()
		}
	}
	return e
}

// write logs one storage-hook call and forwards it unless it lies behind the crash point. The lock
// is held while forwarding so that the order of the log is the order in which the store changed.
func (c *CrashHook) write(e LogEnt, f func()) {
	c.mu.Lock()
	defer c.mu.Unlock()
	c.n++
	c.w++
	e.N, e.W, e.K = c.n, c.w, "w"
	if e.cl != nil { // evaluated under the lock: the state of the object at the position of the write in the sequence
		e.TO = e.cl.IsTakenOver()
	}
	if c.dead || (c.cut >= 0 && c.w > c.cut) {
		e.Dropped = true
		if !c.dead {
			c.trip = true
		}
	}
	c.log = append(c.log, e)
	if !e.Dropped {
		f()
	}
}

func pkFields(e *LogEnt, pk packets.Packet) {
	e.Pid, e.Ty, e.Topic, e.M, e.Qos = int(pk.PacketID), int(pk.FixedHeader.Type), pk.TopicName, msgID(pk.Payload), int(pk.FixedHeader.Qos)
}

func (c *CrashHook) OnSessionEstablished(cl *mqtt.Client, pk packets.Packet) {
	c.write(c.ent("established", cl), func() { c.inner.OnSessionEstablished(cl, pk) })
}
func (c *CrashHook) OnDisconnect(cl *mqtt.Client, err error, expire bool) {
	e := c.ent("disconnect", cl)
	e.Expire = expire
	c.write(e, func() { c.inner.OnDisconnect(cl, err, expire) })
}
func (c *CrashHook) OnSubscribed(cl *mqtt.Client, pk packets.Packet, codes []byte) {
	e := c.ent("subscribed", cl)
	e.Pid = int(pk.PacketID)
	for _, f := range pk.Filters {
		e.Fs = append(e.Fs, f.Filter)
	}
	for _, x := range codes {
		e.Codes = append(e.Codes, int(x))
	}
	c.write(e, func() { c.inner.OnSubscribed(cl, pk, codes) })
}
func (c *CrashHook) OnUnsubscribed(cl *mqtt.Client, pk packets.Packet) {
	e := c.ent("unsubscribed", cl)
	e.Pid = int(pk.PacketID)
	for _, f := range pk.Filters {
		e.Fs = append(e.Fs, f.Filter)
	}
	if len(pk.Filters) == 0 { // nothing to delete: not a write
		return
	}
	c.write(e, func() { c.inner.OnUnsubscribed(cl, pk) })
}
func (c *CrashHook) OnRetainMessage(cl *mqtt.Client, pk packets.Packet, r int64) {
	e := c.ent("retain", cl)
	pkFields(&e, pk)
	e.R = int(r)
	c.write(e, func() { c.inner.OnRetainMessage(cl, pk, r) })
}
func (c *CrashHook) OnQosPublish(cl *mqtt.Client, pk packets.Packet, sent int64, resends int) {
	e := c.ent("qos_publish", cl)
	pkFields(&e, pk)
	c.write(e, func() { c.inner.OnQosPublish(cl, pk, sent, resends) })
}
func (c *CrashHook) OnQosComplete(cl *mqtt.Client, pk packets.Packet) {
	e := c.ent("qos_complete", cl)
	pkFields(&e, pk)
	c.write(e, func() { c.inner.OnQosComplete(cl, pk) })
}
func (c *CrashHook) OnQosDropped(cl *mqtt.Client, pk packets.Packet) {
	e := c.ent("qos_dropped", cl)
	pkFields(&e, pk)
	c.write(e, func() { c.inner.OnQosDropped(cl, pk) })
}
func (c *CrashHook) OnWillSent(cl *mqtt.Client, pk packets.Packet) {
	e := c.ent("will_sent", cl)
	pkFields(&e, pk)
	c.write(e, func() { c.inner.OnWillSent(cl, pk) })
}
func (c *CrashHook) OnClientExpired(cl *mqtt.Client) {
	c.write(c.ent("client_expired", cl), func() { c.inner.OnClientExpired(cl) })
}
func (c *CrashHook) OnRetainedExpired(filter string) {
	e := c.ent("retained_expired", nil)
	e.Topic = filter
	c.write(e, func() { c.inner.OnRetainedExpired(filter) })
}
func (c *CrashHook) OnSysInfoTick(info *system.Info) {
	c.write(c.ent("sys_tick", nil), func() { c.inner.OnSysInfoTick(info) })
}

var ackNames = map[byte]string{packets.Connack: "connack", packets.Publish: "publish", packets.Puback: "puback",
	packets.Pubrec: "pubrec", packets.Pubrel: "pubrel", packets.Pubcomp: "pubcomp", packets.Suback: "suback",
	packets.Unsuback: "unsuback", packets.Disconnect: "disconnect_pk"}

// OnPacketSent puts every packet the broker has written to a client into the same sequence.
func (c *CrashHook) OnPacketSent(cl *mqtt.Client, pk packets.Packet, b []byte) {
	name, ok := ackNames[pk.FixedHeader.Type]
	if !ok {
		return
	}
	e := c.ent(name, cl)
	pkFields(&e, pk)
	e.SP, e.RC = pk.SessionPresent, int(pk.ReasonCode)
	for _, x := range pk.ReasonCodes {
		e.Codes = append(e.Codes, int(x))
	}
	c.mu.Lock()
	c.n++
	e.N, e.K = c.n, "a"
	c.log = append(c.log, e)
	c.mu.Unlock()
}

func (c *CrashHook) StoredClients() ([]storage.Client, error) { return c.inner.StoredClients() }
func (c *CrashHook) StoredSubscriptions() ([]storage.Subscription, error) {
	return c.inner.StoredSubscriptions()
}
func (c *CrashHook) StoredInflightMessages() ([]storage.Message, error) {
	return c.inner.StoredInflightMessages()
}
func (c *CrashHook) StoredRetainedMessages() ([]storage.Message, error) {
	return c.inner.StoredRetainedMessages()
}
func (c *CrashHook) StoredSysInfo() (storage.SystemInfo, error) { return c.inner.StoredSysInfo() }

// ------------------------------------------------------------------------------------------ view

// SSub is one subscription (trie entry or client-state entry).
type SSub struct {
	C   string `json:"c"`
	F   string `json:"f"`
	Q   int    `json:"q"`
	NL  bool   `json:"nl"`
	RAP bool   `json:"rap"`
	RH  int    `json:"rh"`
	ID  int    `json:"id"`
}

// SMsg is one retained or in-flight message with the properties a restart must preserve.
type SMsg struct {
	C       string      `json:"c"` // owner (in-flight) / "" (retained)
	Pid     int         `json:"pid"`
	Ty      int         `json:"ty"`
	Q       int         `json:"q"`
	Ret     bool        `json:"ret"`
	Topic   string      `json:"topic"`
	M       string      `json:"m"`
	Origin  string      `json:"o"`
	Created int         `json:"created"`
	Expiry  int         `json:"expiry"`
	PV      int         `json:"pv"`
	MEI     int         `json:"mei"`
	CT      string      `json:"ct"`
	RT      string      `json:"rt"`
	CD      string      `json:"cd"`
	UP      [][2]string `json:"up"`
}

// SCli is one entry of Server.Clients.
type SCli struct {
	ID     string `json:"id"`
	K      string `json:"k"`
	Online bool   `json:"online"`
	TO     bool   `json:"to"`
	Stop   int    `json:"stop"`
	V      int    `json:"v"`
	Clean  bool   `json:"clean"`
	SEI    int    `json:"sei"`
	SEIF   bool   `json:"seif"`
	RPI    int    `json:"rpi"`
	RPIF   bool   `json:"rpif"`
	WillF  bool   `json:"willf"`
	Subs   []SSub `json:"subs"`
	Inf    []SMsg `json:"inf"`
}

// SView is the projection of the broker state the storage checks compare across a restart.
type SView struct {
	Clients  []SCli `json:"clients"`
	Trie     []SSub `json:"trie"`
	Retained []SMsg `json:"retained"`
	Now      int    `json:"now"`
}

func clamp(v int64) int {
	if v > math.MaxInt32 {
		return math.MaxInt32
	}
	if v < math.MinInt32 {
		return math.MinInt32
	}
	return int(v)
}

func sMsg(owner string, p packets.Packet) SMsg {
	m := SMsg{C: owner, Pid: int(p.PacketID), Ty: int(p.FixedHeader.Type), Q: int(p.FixedHeader.Qos), Ret: p.FixedHeader.Retain,
		Topic: p.TopicName, M: msgID(p.Payload), Origin: p.Origin, Created: clamp(p.Created), Expiry: clamp(p.Expiry),
		PV: int(p.ProtocolVersion), MEI: clamp(int64(p.Properties.MessageExpiryInterval)), CT: p.Properties.ContentType,
		RT: p.Properties.ResponseTopic, CD: string(p.Properties.CorrelationData), UP: [][2]string{}}
	for _, u := range p.Properties.User {
		m.UP = append(m.UP, [2]string{u.Key, u.Val})
	}
	return m
}

func sSub(c string, s packets.Subscription) SSub {
	return SSub{C: c, F: s.Filter, Q: int(s.Qos), NL: s.NoLocal, RAP: s.RetainAsPublished, RH: int(s.RetainHandling), ID: s.Identifier}
}

// View projects the current broker state.
func (h *History) View() SView {
	v := SView{Clients: []SCli{}, Trie: []SSub{}, Retained: []SMsg{}, Now: clamp(h.now())}
	all := h.Srv.Clients.GetAll()
	ids := make([]string, 0, len(all))
	for id := range all {
		ids = append(ids, id)
	}
	sort.Strings(ids)
	h.mu.Lock()
	by := map[*mqtt.Client]string{}
	for cl, c := range h.byCl {
		by[cl] = c.name
	}
	h.mu.Unlock()
	for _, id := range ids {
		cl := all[id]
		c := SCli{ID: id, K: by[cl], Online: !cl.Closed() && cl.Net.Conn != nil, TO: cl.IsTakenOver(), Stop: clamp(cl.StopTime()),
			V: int(cl.Properties.ProtocolVersion), Clean: cl.Properties.Clean, SEI: clamp(int64(cl.Properties.Props.SessionExpiryInterval)),
			SEIF: cl.Properties.Props.SessionExpiryIntervalFlag, RPI: int(cl.Properties.Props.RequestProblemInfo),
			RPIF: cl.Properties.Props.RequestProblemInfoFlag, WillF: cl.Properties.Will.Flag != 0, Subs: []SSub{}, Inf: []SMsg{}}
		subs := cl.State.Subscriptions.GetAll()
		fk := make([]string, 0, len(subs))
		for f := range subs {
			fk = append(fk, f)
		}
		sort.Strings(fk)
		for _, f := range fk {
			c.Subs = append(c.Subs, sSub(id, subs[f]))
		}
		inf := cl.State.Inflight.GetAll(false)
		sort.Slice(inf, func(i, j int) bool { return inf[i].PacketID < inf[j].PacketID })
		for _, p := range inf {
			c.Inf = append(c.Inf, sMsg(id, p))
		}
		v.Clients = append(v.Clients, c)
	}
	for _, en := range h.Srv.Topics.VerifDumpTopics() {
		if en.Kind == "client" || en.Kind == "shared" {
			v.Trie = append(v.Trie, sSub(en.Client, en.Sub))
		}
	}
	sort.Slice(v.Trie, func(i, j int) bool {
		if v.Trie[i].C != v.Trie[j].C {
			return v.Trie[i].C < v.Trie[j].C
		}
		return v.Trie[i].F < v.Trie[j].F
	})
	ret := h.Srv.Topics.Retained.GetAll()
	rk := make([]string, 0, len(ret))
	for t := range ret {
		if len(t) >= 4 && t[:4] == "$SYS" {
			continue
		}
		rk = append(rk, t)
	}
	sort.Strings(rk)
	for _, t := range rk {
		v.Retained = append(v.Retained, sMsg("", ret[t]))
	}
	return v
}

// ------------------------------------------------------------------------------------------ lines

// SPkt is the part of a received packet the storage judges look at.
type SPkt struct {
	T     int         `json:"t"`
	Qos   int         `json:"qos"`
	Dup   bool        `json:"dup"`
	Ret   bool        `json:"ret"`
	Pid   int         `json:"pid"`
	Topic string      `json:"topic"`
	M     string      `json:"m"`
	Sid   []int       `json:"sid"`
	MEI   int         `json:"mei"`
	CT    string      `json:"ct"`
	RT    string      `json:"rt"`
	CD    string      `json:"cd"`
	UP    [][2]string `json:"up"`
	RC    int         `json:"rc"`
	SP    bool        `json:"sp"`
	Codes []int       `json:"codes"`
}

// SLine is one line of a storage trace: one executed op (or shutdown / restart / config marker).
type SLine struct {
	I       int               `json:"i"`
	Ev      string            `json:"ev"`
	Backend string            `json:"backend"`
	Name    string            `json:"name"`
	Cut     int               `json:"cut"` // crash point of this run (-1: none)
	K       string            `json:"k"`
	C       string            `json:"c"`
	V       int               `json:"v"`
	A       Op                `json:"a"`
	Pid     int               `json:"pid"`
	Out     map[string][]SPkt `json:"out"`
	Closed  []string          `json:"closed"`
	Err     string            `json:"err"`
	Tick    int               `json:"tick"`
	Log     []LogEnt          `json:"log"`
	SV      SView             `json:"sv"`
	Cfg     *Config           `json:"cfg,omitempty"`
}

// StoreHistory is a History with a persistence hook.
type StoreHistory struct {
	*History
	factory StoreFactory
	Crash   *CrashHook
	Lines   []SLine
	Backend string
	Name    string
	cut     int
}

func (s *StoreHistory) attach(cut int) error {
	h := s.History
	if h.rec == nil {
		h.rec = &recHook{h: h}
	}
	if err := h.Srv.AddHook(h.rec, nil); err != nil {
		return err
	}
	inner, config := s.factory()
	s.Crash = &CrashHook{inner: inner, h: h, cut: cut}
	if err := h.Srv.AddHook(s.Crash, config); err != nil {
		return err
	}
	switch h.Cfg.Auth {
	case "allow", "acl":
		c := h.Cfg
		if err := h.Srv.AddHook(&aclHook{cfg: &c}, nil); err != nil {
			return err
		}
	}
	return nil
}

// NewHistoryWithStore boots a broker for cfg with a persistence hook from factory. cut >= 0: every
// storage write after the cut-th is silently dropped.
func NewHistoryWithStore(cfg Config, backend, name string, factory StoreFactory, cut int) (*StoreHistory, error) {
	h := &History{Cfg: cfg, conns: map[string]*conn{}, byCl: map[*mqtt.Client]*conn{}, t0: time.Now().Unix()}
	h.Srv = newServer(cfg)
	s := &StoreHistory{History: h, factory: factory, Backend: backend, Name: name, cut: cut}
	if err := s.attach(cut); err != nil {
		return nil, err
	}
	first := Event{Ev: "Config", Cfg: &cfg}
	h.emit(&first)
	s.Lines = append(s.Lines, SLine{I: 1, Ev: "Config", Backend: backend, Name: name, Cut: cut, Cfg: &cfg, A: first.A,
		Out: map[string][]SPkt{}, Closed: []string{}, Log: []LogEnt{}, SV: h.View()})
	normOp(&s.Lines[0].A)
	return s, nil
}

func slimPkts(in map[string][]Pkt) map[string][]SPkt {
	out := map[string][]SPkt{}
	for k, ps := range in {
		l := make([]SPkt, 0, len(ps))
		for _, p := range ps {
			sp := SPkt{T: p.T, Qos: p.Qos, Dup: p.Dup, Ret: p.Ret, Pid: p.Pid, Topic: p.TS, M: p.M, Sid: p.Sid, MEI: p.MEI, CT: p.CT,
				RT: p.RT, CD: p.CD, UP: p.UP, RC: p.RC, SP: p.SP, Codes: p.Codes}
			if sp.Sid == nil {
				sp.Sid = []int{}
			}
			if sp.UP == nil {
				sp.UP = [][2]string{}
			}
			if sp.Codes == nil {
				sp.Codes = []int{}
			}
			l = append(l, sp)
		}
		out[k] = l
	}
	return out
}

func (s *StoreHistory) line(ev string, e *Event) *SLine {
	l := SLine{I: len(s.Lines) + 1, Ev: ev, Backend: s.Backend, Name: s.Name, Cut: s.cut, Out: map[string][]SPkt{}, Closed: []string{},
		Log: s.Crash.take(), SV: s.History.View()}
	if e != nil {
		l.K, l.C, l.V, l.A, l.Pid, l.Err, l.Tick = e.K, e.C, e.V, e.A, e.Pid, e.Err, clamp(e.Tick)
		l.Out = slimPkts(e.Out)
		l.Closed = e.Closed
	}
	normOp(&l.A)
	s.Lines = append(s.Lines, l)
	return &s.Lines[len(s.Lines)-1]
}

// Step executes one op on the broker and records one storage trace line.
func (s *StoreHistory) Step(o Op) *SLine {
	s.History.Step(o)
	e := s.History.Events[len(s.History.Events)-1]
	return s.line(o.Op, &e)
}

func (s *StoreHistory) closeConns() {
	h := s.History
	for _, n := range h.order { // let every handler that is held at a schedule gate run to its end
		c := h.conns[n]
		c.gmu.Lock()
		c.armed = map[string]bool{}
		c.gmu.Unlock()
		select {
		case c.release <- struct{}{}:
		default:
		}
	}
	for _, n := range h.order {
		h.conns[n].theirs.Drop()
	}
	for _, n := range h.order {
		c := h.conns[n]
		select {
		case <-c.doneCh:
		case <-time.After(3 * time.Second):
		}
		registry.Delete(net.Conn(c.theirs))
	}
	h.quiesce()
	// discard what the dead connections still delivered
	for _, n := range h.order {
		h.conns[n].theirs.Take()
	}
	h.conns = map[string]*conn{}
	h.order = nil
	h.mu.Lock()
	h.byCl = map[*mqtt.Client]*conn{}
	h.gates = nil
	h.mu.Unlock()
	h.rec.take()
}

// Restart shuts the broker down and boots a new one on the same store: every connection is closed
// (line "shutdown": the projection before shutdown), Server.Close stops the hooks, a new Server
// with the same capabilities and a fresh hook instance on the SAME store runs the store-loading
// step (VerifReadStore), and line "restart" records the projection after it. With crash == true
// the process dies instead: every write from now on is dropped and there is no graceful shutdown.
func (s *StoreHistory) Restart(crash bool) *SLine {
	h := s.History
	if crash {
		s.Crash.Kill()
	}
	s.closeConns()
	if crash {
		s.line("crash", nil)
	} else {
		s.line("shutdown", nil)
	}
	_ = h.Srv.Close()
	h.Srv = newServer(h.Cfg)
	h.rec = &recHook{h: h}
	errs := ""
	if err := s.attach(-1); err != nil {
		errs = "attach: " + err.Error()
	} else if err := h.Srv.VerifReadStore(); err != nil {
		errs = "readStore: " + err.Error()
	}
	l := s.line("restart", nil)
	l.Err = errs
	return l
}

// Close tears everything down (connections, broker, hook).
func (s *StoreHistory) Close() {
	s.closeConns()
	_ = s.History.Srv.Close()
}
