package driver

// Attach family: replay of gate schedules produced by TLC from spec/Attach.tla on the real broker.
//
// A schedule is a list of steps (h, g): "let process h run until it reaches schedule point g". Handler
// goroutines (one per client connection, running Server.EstablishConnection) and the closer goroutine
// (Server.Close) are parked at the verifAt(...) schedule points of the verif build; exactly one of
// them runs at a time, so the interleaving of the code segments between schedule points is the one
// the schedule asks for. The runner holds no oracle: after every step it records which point was
// actually reached and a projection of the broker state; TLC (TraceAttach.tla) judges the record.

import (
	"fmt"
	"log/slog"
	"math"
	"strings"
	"sync"
	"sync/atomic"
	"time"

	mqtt "github.com/mochi-mqtt/server/v2"
	"github.com/mochi-mqtt/server/v2/listeners"
	"github.com/mochi-mqtt/server/v2/packets"

	"verifharness/refcodec"
)

type AttachHandler struct {
	ID     string `json:"id"`
	Ver    int    `json:"ver"`
	Clean  bool   `json:"clean"`
	Expire bool   `json:"expire"`
	Will   int    `json:"will"` // -1 none, 0 immediate, 1 delayed
}

type AttachStep struct {
	H int    `json:"h"`
	G string `json:"g"`
}

type AttachScenario struct {
	Name     string          `json:"name"`
	Max      int             `json:"max"`
	Handlers []AttachHandler `json:"handlers"`
	Steps    []AttachStep    `json:"steps"`
}

// AttachObs is the projection recorded after every step.
type AttachObs struct {
	Cnt     int64               `json:"cnt"`     // Info.ClientsConnected
	Reg     map[string]int      `json:"reg"`     // client id -> handler whose client is registered (0 none, -1 unknown object)
	Trie    []string            `json:"trie"`    // ids with a subscription on t/<id> in the topic index
	Delayed []string            `json:"delayed"` // ids with a pending delayed will
	Wire    map[string][]string `json:"wire"`    // handler -> packets received so far
	Closed  []int               `json:"closed"`  // handlers whose connection the broker has closed
	Fin     []int               `json:"fin"`     // handlers whose EstablishConnection call has returned
	Wills   map[string]int      `json:"wills"`   // handler -> number of publications of its will message
	Closer  string              `json:"closer"`  // idle | called | returned
	Passed  bool                `json:"passed"`  // the closer has come out of Listeners.CloseAll (ClientsWg.Wait is behind it)
}

type AttachLine struct {
	Ev   string          `json:"ev"` // cfg | step | end
	Name string          `json:"name,omitempty"`
	Max  int             `json:"max"`
	Hs   []AttachHandler `json:"hs"`
	I    int             `json:"i"`
	H    int             `json:"h"`
	G    string          `json:"g"`
	Got  string          `json:"got"`
	Note string          `json:"note"`
	Obs  *AttachObs      `json:"obs,omitempty"`
}

type ahandler struct {
	idx      int
	cfg      AttachHandler
	conn     *memConn
	started  bool
	parkedAt string
	release  chan struct{}
	arrived  chan string
	fin      chan struct{}
	finished bool
	cl       *mqtt.Client
	buf      []byte
	wire     []string
}

type attachRun struct {
	sc        AttachScenario
	srv       *mqtt.Server
	hs        []*ahandler // index 1..N
	byConn    sync.Map    // net.Conn -> *ahandler
	closerArr chan string
	freeRun   atomic.Bool
	current   atomic.Int32 // the process allowed to run (0 closer, -1 nobody)
	closerRel chan struct{}
	closerAt  string
	passed    atomic.Bool
	expGate   atomic.Bool   // the next OnClientExpired call parks (schedule point hook.expired)
	expArr    chan struct{} // the housekeeping has reached hook.expired
	expRel    chan struct{}
	expDone   chan struct{} // clearExpiredClients has returned
	closeRet  chan struct{}
	closeCli  chan struct{}
	closer    string
	willMu    sync.Mutex
	wills     map[string]int
	panicNote string
}

// memListener is a listener without a socket: connections are handed to EstablishConnection by the runner.
type memListener struct {
	r *attachRun
}

func (l *memListener) Init(*slog.Logger) error     { return nil }
func (l *memListener) Serve(listeners.EstablishFn) {}
func (l *memListener) ID() string                  { return "mem" }
func (l *memListener) Address() string             { return "mem" }
func (l *memListener) Protocol() string            { return "mem" }
func (l *memListener) Close(closeClients listeners.CloseFn) {
	closeClients("mem")
	select {
	case l.r.closeCli <- struct{}{}:
	default:
	}
}

type attachHook struct {
	mqtt.HookBase
	r *attachRun
}

func (h *attachHook) ID() string { return "verif-attach" }
func (h *attachHook) Provides(b byte) bool {
	return b == mqtt.OnUnsubscribed || b == mqtt.OnDisconnect || b == mqtt.OnConnectAuthenticate || b == mqtt.OnACLCheck || b == mqtt.OnClientExpired
}
func (h *attachHook) OnConnectAuthenticate(*mqtt.Client, packets.Packet) bool { return true }
func (h *attachHook) OnACLCheck(*mqtt.Client, string, bool) bool              { return true }

// OnClientExpired is a schedule point of the housekeeping (clearExpiredClients): the first client object it discards
func (h *attachHook) OnClientExpired(cl *mqtt.Client) {
	r := h.r
	if r.freeRun.Load() || !r.expGate.CompareAndSwap(true, false) {
		return
	}
	r.expArr <- struct{}{}
	<-r.expRel
}

// OnDisconnect is a schedule point of the teardown (after teardown.cleanup, before the test of isTakenOver).
func (h *attachHook) OnDisconnect(cl *mqtt.Client, err error, expire bool) {
	r := h.r
	if r.freeRun.Load() || cl == nil || cl.Net.Conn == nil {
		return
	}
	if v, ok := r.byConn.Load(cl.Net.Conn); ok {
		a := v.(*ahandler)
		if a.parkedAt == "teardown.cleanup" {
			r.park(a, "hook.disconnect")
		}
	}
}

// OnUnsubscribed is a schedule point inside the session-end clean-up of a handler's own teardown
// (between UnsubscribeClient and Clients.Delete); calls made on behalf of another goroutine (a
// successor's inheritClientSession) pass through.
func (h *attachHook) OnUnsubscribed(cl *mqtt.Client, pk packets.Packet) {
	r := h.r
	if r.freeRun.Load() || cl == nil || cl.Net.Conn == nil {
		return
	}
	v, ok := r.byConn.Load(cl.Net.Conn)
	if !ok {
		return
	}
	a := v.(*ahandler)
	if int(r.current.Load()) != a.idx || a.parkedAt != "hook.disconnect" {
		return
	}
	r.park(a, "hook.unsubscribed")
}

var autoPass = map[string]bool{"read.handled": true, "write.afterClosedCheck": true, "disconnect.written": true,
	"loop.dequeued": true, "write.encoded": true, "write.unlocked": true}

// park reports the arrival of handler a at point pt and blocks it until the scheduler releases it. A
// handler parks at every schedule point, also when it is not its turn (e.g. its read loop ended
// because another handler closed its connection): it then simply waits to be scheduled.
func (r *attachRun) park(a *ahandler, pt string) {
	a.parkedAt = pt
	a.arrived <- pt
	<-a.release
}

func (r *attachRun) sched(point string, cl *mqtt.Client) {
	if r.freeRun.Load() || autoPass[point] {
		return
	}
	if cl == nil {
		if point == "close.begin" || point == "close.listenersClosed" {
			r.closerAt = point
			if point == "close.listenersClosed" {
				r.passed.Store(true)
			}
			r.closerArr <- point
			<-r.closerRel
		}
		return
	}
	if cl.Net.Conn == nil {
		return
	}
	v, ok := r.byConn.Load(cl.Net.Conn)
	if !ok {
		return
	}
	a := v.(*ahandler)
	if a.cl == nil {
		a.cl = cl
	}
	r.park(a, point)
}

const attachWait = 3 * time.Second

func (r *attachRun) connectBytes(a *ahandler) []byte {
	c := a.cfg
	v := byte(c.Ver)
	p := refcodec.New(refcodec.Connect, v)
	p.ProtoName = "MQTT"
	p.ProtoVersion = v
	p.KeepAlive = 0
	p.ClientID = c.ID
	var fl byte
	if c.Clean {
		fl |= 2
	}
	if c.Will >= 0 {
		fl |= 4
		p.WillTopic = fmt.Sprintf("will/%d", a.idx)
		p.WillPayload = []byte(fmt.Sprintf("w%d", a.idx))
		if v == 5 {
			p.HasWillProps = true
			if c.Will > 0 {
				p.WillProps = append(p.WillProps, u32(refcodec.PropWillDelay, 100000))
			}
		}
	}
	p.ConnectFlags = fl
	if v == 5 {
		p.HasProps = true
		if !c.Expire {
			p.Props = append(p.Props, u32(refcodec.PropSessionExpiry, 1000000))
		}
	}
	return refcodec.Encode(p)
}

// releaseH lets a parked handler continue; false if it is not parked at a schedule point
func (r *attachRun) releaseH(a *ahandler) bool {
	if !a.started {
		return false
	}
	select {
	case a.release <- struct{}{}:
		return true
	case <-time.After(attachWait):
		return false
	}
}

func (r *attachRun) releaseCloser() bool {
	select {
	case r.closerRel <- struct{}{}:
		return true
	case <-time.After(attachWait):
		return false
	}
}

// waitFor waits for the next arrival of process h (0 = closer) at a schedule point, or its end
func (r *attachRun) waitFor(h int, fin chan struct{}) string {
	t := time.NewTimer(attachWait)
	defer t.Stop()
	ch := r.closerArr
	if h > 0 {
		ch = r.hs[h].arrived
	}
	select {
	case pt := <-ch:
		return pt
	case <-fin:
		return "finished"
	case <-t.C:
		return "timeout"
	}
}

func (r *attachRun) pump(a *ahandler) {
	b, _ := a.conn.Take()
	a.buf = append(a.buf, b...)
	pkts, n, _ := refcodec.SplitStream(a.buf)
	a.buf = a.buf[n:]
	for _, raw := range pkts {
		p, err := refcodec.DecodeLenient(raw, byte(a.cfg.Ver))
		if err != nil || p == nil {
			a.wire = append(a.wire, "UNDECODABLE")
			continue
		}
		switch p.Type {
		case refcodec.Connack:
			if p.ReasonCode == 0 {
				if p.SessionPresent {
					a.wire = append(a.wire, "CONNACK1")
				} else {
					a.wire = append(a.wire, "CONNACK0")
				}
			} else {
				a.wire = append(a.wire, fmt.Sprintf("CONNACKFAIL%02X", p.ReasonCode))
			}
		case refcodec.Publish:
			a.wire = append(a.wire, "PUBLISH")
		case refcodec.Disconnect:
			a.wire = append(a.wire, fmt.Sprintf("DISC%02X", p.ReasonCode))
		case refcodec.Suback:
			a.wire = append(a.wire, "SUBACK")
		default:
			a.wire = append(a.wire, fmt.Sprintf("T%d", p.Type))
		}
	}
}

func (r *attachRun) observe() *AttachObs {
	o := &AttachObs{Reg: map[string]int{}, Wire: map[string][]string{}, Wills: map[string]int{}, Trie: []string{}, Delayed: []string{}, Closed: []int{}, Fin: []int{}}
	o.Cnt = atomic.LoadInt64(&r.srv.Info.ClientsConnected)
	ids := map[string]bool{}
	for _, a := range r.hs[1:] {
		ids[a.cfg.ID] = true
	}
	for id := range ids {
		o.Reg[id] = 0
		if cl, ok := r.srv.Clients.Get(id); ok {
			o.Reg[id] = -1
			if cl.Net.Conn != nil {
				if v, ok := r.byConn.Load(cl.Net.Conn); ok {
					o.Reg[id] = v.(*ahandler).idx
				}
			}
		}
		subs := r.srv.Topics.Subscribers("t/" + id)
		if _, ok := subs.Subscriptions[id]; ok {
			o.Trie = append(o.Trie, id)
		}
	}
	for id := range r.srv.VerifDelayedWills() {
		o.Delayed = append(o.Delayed, id)
	}
	for _, a := range r.hs[1:] {
		k := fmt.Sprint(a.idx)
		if a.conn != nil {
			r.pump(a)
			if a.conn.isClosed() {
				o.Closed = append(o.Closed, a.idx)
			}
		}
		w := a.wire
		if w == nil {
			w = []string{}
		}
		o.Wire[k] = append([]string{}, w...)
		if a.finished {
			o.Fin = append(o.Fin, a.idx)
		}
	}
	r.willMu.Lock()
	for k, v := range r.wills {
		o.Wills[k] = v
	}
	r.willMu.Unlock()
	for _, a := range r.hs[1:] {
		if _, ok := o.Wills[fmt.Sprint(a.idx)]; !ok {
			o.Wills[fmt.Sprint(a.idx)] = 0
		}
	}
	o.Closer = r.closer
	o.Passed = r.passed.Load()
	return o
}

func (r *attachRun) markFin(a *ahandler) {
	a.finished = true
}

func (r *attachRun) step(st AttachStep) string {
	if st.H == 0 {
		switch {
		case st.G == "close.begin":
			r.current.Store(0)
			r.closer = "called"
			go func() {
				defer func() {
					if p := recover(); p != nil { // a panic inside Server.Close is recorded, not fatal for the runner
						r.panicNote = fmt.Sprint(p)
						r.closerArr <- "panic"
					}
				}()
				_ = r.srv.Close()
				close(r.closeRet)
			}()
			return r.waitFor(0, nil)
		case st.G == "close.clients":
			r.current.Store(0)
			if !r.releaseCloser() {
				return "not-parked"
			}
			select {
			case <-r.closeCli:
				return "close.clients"
			case pt := <-r.closerArr:
				// with nothing to wait for the closer runs on to its next schedule point at once: both channels are
				// ready and select picks either. The listener was closed first; the arrival is kept for the next step.
				select {
				case <-r.closeCli:
					r.closerArr <- pt
					return "close.clients"
				default:
				}
				return pt
			case <-time.After(attachWait):
				return "timeout"
			}
		case st.G == "close.listenersClosed":
			r.current.Store(0)
			return r.waitFor(0, nil)
		case st.G == "close.returned":
			r.current.Store(0)
			if !r.releaseCloser() {
				return "not-parked"
			}
			select {
			case <-r.closeRet:
				r.closer = "returned"
				return "close.returned"
			case pt := <-r.closerArr:
				return pt
			case <-time.After(attachWait):
				return "timeout"
			}
		case st.G == "hook.expired":
			// the housekeeping runs at a time when every disconnected session has expired, up to its first OnClientExpired
			r.current.Store(-1)
			r.expGate.Store(true)
			r.expDone = make(chan struct{})
			go func(done chan struct{}) {
				defer close(done)
				defer func() { _ = recover() }()
				r.srv.VerifTick("clients", time.Now().Unix()+5000000000) // beyond every interval, also the server maximum (MaxUint32 s)
			}(r.expDone)
			select {
			case <-r.expArr:
				return "hook.expired"
			case <-r.expDone:
				r.expGate.Store(false)
				return "nothing-expired"
			case <-time.After(attachWait):
				return "timeout"
			}
		case st.G == "expire.finish":
			r.current.Store(-1)
			select {
			case r.expRel <- struct{}{}:
			case <-time.After(attachWait):
				return "not-parked"
			}
			select {
			case <-r.expDone:
				return "expire.finish"
			case <-time.After(attachWait):
				return "timeout"
			}
		case st.G == "tick":
			r.current.Store(-1)
			// time passes beyond every delay; the housekeeping runs (at least) twice
			r.srv.VerifTick("wills", time.Now().Unix()+10000000)
			r.srv.VerifTick("wills", time.Now().Unix()+10000001)
			return "tick"
		case strings.HasPrefix(st.G, "pub:"):
			r.current.Store(-1)
			id := st.G[4:]
			_ = r.srv.Publish("t/"+id, []byte("x"), false, 0)
			if cl, ok := r.srv.Clients.Get(id); ok {
				dl := time.Now().Add(attachWait)
				for cl.VerifOutboundQty() > 0 && time.Now().Before(dl) && !cl.Closed() {
					time.Sleep(200 * time.Microsecond)
				}
			}
			return st.G
		}
		return "unknown-step"
	}
	a := r.hs[st.H]
	switch st.G {
	case "spawn":
		return "spawn" // the goroutine exists but has not run yet: nothing happens in the broker
	case "attach.added":
		a.conn = newMemConn()
		r.byConn.Store(a.conn, a)
		_ = a.conn.Send(r.connectBytes(a))
		a.started = true
		r.current.Store(int32(a.idx))
		go func() {
			defer func() {
				if p := recover(); p != nil { // a panic inside the connection handler is recorded, not fatal for the runner
					r.panicNote = fmt.Sprint(p)
					a.arrived <- "panic"
				}
			}()
			_ = r.srv.EstablishConnection("mem", a.conn)
			close(a.fin)
		}()
		got := r.waitFor(a.idx, a.fin)
		if got == "finished" {
			r.markFin(a)
		}
		return got
	case "drop":
		r.current.Store(-1)
		a.conn.Drop()
		return "drop"
	case "sub":
		r.current.Store(-1)
		p := refcodec.New(refcodec.Subscribe, byte(a.cfg.Ver))
		p.PacketID = 1
		p.Filters = []refcodec.Filter{{Filter: "t/" + a.cfg.ID, Options: 0}}
		if a.cfg.Ver == 5 {
			p.HasProps = true
		}
		if err := a.conn.Send(refcodec.Encode(p)); err != nil {
			return "send-failed"
		}
		dl := time.Now().Add(attachWait)
		for time.Now().Before(dl) {
			r.pump(a)
			for _, w := range a.wire {
				if w == "SUBACK" {
					return "sub"
				}
			}
			time.Sleep(200 * time.Microsecond)
		}
		return "timeout"
	case "read":
		// released from attach.established into the read loop; nothing to wait for
		r.current.Store(int32(a.idx))
		if !r.releaseH(a) {
			return "not-parked"
		}
		// wait until the handler is really blocked in its read loop (or has gone elsewhere)
		a.parkedAt = "reading"
		dl := time.Now().Add(attachWait)
		for time.Now().Before(dl) {
			if a.conn.ReaderBlocked() {
				return "read"
			}
			select {
			case pt := <-a.arrived:
				return pt
			case <-a.fin:
				r.markFin(a)
				return "finished"
			default:
			}
			time.Sleep(50 * time.Microsecond)
		}
		return "timeout"
	case "teardown.will":
		// the handler is in its read loop and arrives when the connection has ended; a handler still
		// parked before its read loop (its connection was closed meanwhile) is let go first
		r.current.Store(int32(a.idx))
		if a.parkedAt == "attach.established" && !r.releaseH(a) {
			return "not-parked"
		}
		got := r.waitFor(a.idx, a.fin)
		if got == "finished" {
			r.markFin(a)
		}
		return got
	default:
		r.current.Store(int32(a.idx))
		if !r.releaseH(a) {
			return "not-parked"
		}
		got := r.waitFor(a.idx, a.fin)
		if got == "finished" {
			r.markFin(a)
		}
		return got
	}
}

// RunAttach executes one scenario and returns the recorded lines.
func RunAttach(sc AttachScenario) []AttachLine {
	r := &attachRun{sc: sc, closerArr: make(chan string, 4), closerRel: make(chan struct{}), closeRet: make(chan struct{}),
		closeCli: make(chan struct{}, 1), closer: "idle", wills: map[string]int{}, expArr: make(chan struct{}, 2), expRel: make(chan struct{})}
	caps := mqtt.NewDefaultServerCapabilities()
	caps.MaximumClients = int64(sc.Max)
	caps.MaximumSessionExpiryInterval = math.MaxUint32
	r.srv = mqtt.New(&mqtt.Options{Capabilities: caps, InlineClient: true,
		Logger: slog.New(slog.NewTextHandler(nullWriter{}, &slog.HandlerOptions{Level: slog.LevelError + 8}))})
	_ = r.srv.AddHook(&attachHook{r: r}, nil)
	_ = r.srv.AddListener(&memListener{r: r})
	_ = r.srv.Subscribe("will/#", 1, func(cl *mqtt.Client, sub packets.Subscription, pk packets.Packet) {
		r.willMu.Lock()
		r.wills[strings.TrimPrefix(pk.TopicName, "will/")]++
		r.willMu.Unlock()
	})
	r.hs = make([]*ahandler, len(sc.Handlers)+1)
	for i, c := range sc.Handlers {
		r.hs[i+1] = &ahandler{idx: i + 1, cfg: c, release: make(chan struct{}), arrived: make(chan string, 4), fin: make(chan struct{})}
	}
	r.current.Store(-1)
	prev := mqtt.VerifSched
	mqtt.VerifSched = r.sched
	defer func() { mqtt.VerifSched = prev }()

	lines := []AttachLine{{Ev: "cfg", Name: sc.Name, Max: sc.Max, Hs: sc.Handlers}}
	for i, st := range sc.Steps {
		got := r.step(st)
		lines = append(lines, AttachLine{Ev: "step", Max: sc.Max, Hs: []AttachHandler{}, I: i + 1, H: st.H, G: st.G, Got: got, Note: r.panicNote, Obs: r.observe()})
		if got == "panic" {
			break
		}
		if got != st.G {
			// The code has left the schedule. If the process is parked at another schedule point it is run on, point
			// by point, until it blocks in its read loop or ends (recorded as steps that ask for what happened), so that
			// the consequences of the deviation become observable; the rest of the schedule is dropped.
			if st.H > 0 && got != "timeout" && got != "not-parked" && got != "finished" && !strings.HasPrefix(got, "unexpected") {
				a := r.hs[st.H]
				for n := 0; n < 14; n++ {
					var g2 string
					if a.parkedAt == "attach.established" {
						g2 = r.step(AttachStep{H: st.H, G: "read"})
					} else {
						r.current.Store(int32(a.idx))
						if !r.releaseH(a) {
							break
						}
						g2 = r.waitFor(a.idx, a.fin)
						if g2 == "finished" {
							r.markFin(a)
						}
					}
					lines = append(lines, AttachLine{Ev: "step", Max: sc.Max, Hs: []AttachHandler{}, I: len(lines), H: st.H, G: g2, Got: g2, Obs: r.observe()})
					if g2 == "read" || g2 == "finished" || g2 == "timeout" {
						break
					}
				}
			}
			break
		}
	}
	// wind down: everything runs freely, all clients drop, the server closes
	r.freeRun.Store(true)
	r.current.Store(-1)
	for _, a := range r.hs[1:] {
		if a.started {
			a.conn.Drop()
		}
	}
	stopRel := make(chan struct{})
	go func() { // release whoever is still parked
		for {
			select {
			case <-stopRel:
				return
			default:
			}
			for _, a := range r.hs[1:] {
				select {
				case a.release <- struct{}{}:
				default:
				}
			}
			select {
			case r.closerRel <- struct{}{}:
			default:
			}
			select {
			case r.expRel <- struct{}{}:
			default:
			}
			time.Sleep(200 * time.Microsecond)
		}
	}()
	alive := []string{}
	for _, a := range r.hs[1:] {
		if !a.started {
			continue
		}
		select {
		case <-a.fin:
			a.finished = true
		case <-time.After(attachWait):
			alive = append(alive, fmt.Sprint(a.idx))
		}
	}
	if r.closer == "idle" {
		done := make(chan struct{})
		go func() {
			defer func() { _ = recover() }()
			_ = r.srv.Close()
			close(done)
		}()
		select {
		case <-done:
		case <-time.After(attachWait):
		}
	} else if r.closer == "called" {
		select {
		case <-r.closeRet:
		case <-time.After(attachWait):
		}
	}
	close(stopRel)
	lines = append(lines, AttachLine{Ev: "end", Max: sc.Max, Hs: []AttachHandler{}, Got: strings.Join(alive, ","), Obs: r.observe()})
	return lines
}
