package driver

// Lock stress for property C32: concurrent client activity against a real broker over in-memory
// connections with a progress watchdog, and the deterministic "subscriber stops reading" scenario.
// Nothing is judged here: the result records whether every worker finished, where goroutines were
// blocked when it did not, and how long a well-behaved publisher waited while another client stalled.

import (
	"fmt"
	"log/slog"
	"math/rand"
	"regexp"
	"runtime"
	"strings"
	"sync"
	"sync/atomic"
	"time"

	mqtt "github.com/mochi-mqtt/server/v2"
	"github.com/mochi-mqtt/server/v2/hooks/auth"
	"github.com/mochi-mqtt/server/v2/packets"

	"verifharness/refcodec"
)

type StressResult struct {
	Seconds        int      `json:"seconds"`
	Workers        int      `json:"workers"`
	Sessions       int64    `json:"sessions"`       // connect..disconnect rounds completed
	Packets        int64    `json:"packets"`        // packets sent by the clients
	Finished       bool     `json:"finished"`       // every worker returned after the stop signal
	CloseReturned  bool     `json:"close_returned"` // Server.Close returned
	StuckOnLocks   []string `json:"stuck_on_locks"` // broker frames of goroutines blocked in sync.(RW)Mutex when not finished
	StallPingMs    int64    `json:"stall_ping_ms"`  // scenario 2: time until the publisher's PINGRESP arrived while the subscriber was stalled (-1: never within the limit)
	StallLimitMs   int64    `json:"stall_limit_ms"`
	StallBlockedAt []string `json:"stall_blocked_at"` // broker frames of the publisher's handler while blocked
	StallRecovered bool     `json:"stall_recovered"`  // after the subscriber resumed reading the publisher was served
}

type sclient struct {
	c   *memConn
	buf []byte
	ver byte
}

func (s *sclient) recv(timeout time.Duration, want byte) (*refcodec.Packet, bool) {
	dl := time.Now().Add(timeout)
	for time.Now().Before(dl) {
		b, closed := s.c.Take()
		s.buf = append(s.buf, b...)
		pk, n, _ := refcodec.SplitStream(s.buf)
		s.buf = s.buf[n:]
		for _, raw := range pk {
			p, err := refcodec.DecodeLenient(raw, s.ver)
			if err == nil && p != nil && (want == 0 || p.Type == want) {
				return p, true
			}
		}
		if closed {
			return nil, false
		}
		time.Sleep(100 * time.Microsecond)
	}
	return nil, false
}

func connectBytes(id string, ver byte, clean bool) []byte {
	p := refcodec.New(refcodec.Connect, ver)
	p.ProtoName, p.ProtoVersion, p.ClientID = "MQTT", ver, id
	if clean {
		p.ConnectFlags = 2
	}
	if ver == 5 {
		p.HasProps = true
		p.Props = append(p.Props, u32(refcodec.PropSessionExpiry, 30))
	}
	return refcodec.Encode(p)
}

func brokerFrames(stack string) []string {
	re := regexp.MustCompile(`github.com/mochi-mqtt/server/v2[^\s(]*\.([A-Za-z0-9_().*]+)\(`)
	out := []string{}
	for _, g := range strings.Split(stack, "\n\n") {
		if !(strings.Contains(g, "sync.(*RWMutex)") || strings.Contains(g, "sync.(*Mutex)")) {
			continue
		}
		m := re.FindAllStringSubmatch(g, 4)
		fr := []string{}
		for _, x := range m {
			fr = append(fr, x[1])
		}
		if len(fr) > 0 {
			out = append(out, strings.Join(fr, " <- "))
		}
	}
	return out
}

func newStressServer() *mqtt.Server {
	caps := mqtt.NewDefaultServerCapabilities()
	srv := mqtt.New(&mqtt.Options{Capabilities: caps, InlineClient: true, Logger: slog.New(slog.NewTextHandler(nullWriter{}, &slog.HandlerOptions{Level: slog.LevelError + 8}))})
	_ = srv.AddHook(new(auth.AllowHook), nil)
	return srv
}

func RunLockStress(seconds int, seed int64) StressResult {
	res := StressResult{Seconds: seconds, Workers: 24, StallLimitMs: 1500, StuckOnLocks: []string{}, StallBlockedAt: []string{}}
	prev := mqtt.VerifSched
	mqtt.VerifSched = nil
	defer func() { mqtt.VerifSched = prev }()

	// ---- scenario 1: concurrent activity with a watchdog
	srv := newStressServer()
	// an inline subscription whose handler publishes again (the embedding application reacting to a message): the
	// broker's fan-out is re-entered from inside a fan-out
	_ = srv.Subscribe("s/a", 1, func(cl *mqtt.Client, sub packets.Subscription, pk packets.Packet) {
		_ = srv.Publish("echo/a", pk.Payload, false, 0)
	})
	var stop atomic.Bool
	var wg sync.WaitGroup
	topics := []string{"s/a", "s/b", "s/a/c"}
	for w := 0; w < res.Workers; w++ {
		wg.Add(1)
		go func(w int) {
			defer wg.Done()
			rng := rand.New(rand.NewSource(seed*977 + int64(w)))
			for !stop.Load() {
				ver := byte(4 + rng.Intn(2))
				id := fmt.Sprintf("w%d", rng.Intn(res.Workers/2)) // ids are shared: takeovers happen
				c := &sclient{c: newMemConn(), ver: ver}
				done := make(chan struct{})
				go func() { _ = srv.EstablishConnection("mem", c.c); close(done) }()
				_ = c.c.Send(connectBytes(id, ver, rng.Intn(3) == 0))
				if _, ok := c.recv(2*time.Second, refcodec.Connack); !ok {
					c.c.Drop()
					<-done
					continue
				}
				atomic.AddInt64(&res.Packets, 1)
				for n := rng.Intn(12); n > 0 && !stop.Load(); n-- {
					switch rng.Intn(5) {
					case 0:
						p := refcodec.New(refcodec.Subscribe, ver)
						p.PacketID = uint16(1 + rng.Intn(200))
						p.Filters = []refcodec.Filter{{Filter: []string{"s/#", "s/+", "s/a", "$share/g/s/#"}[rng.Intn(4)], Options: byte(rng.Intn(2))}}
						p.HasProps = ver == 5
						_ = c.c.Send(refcodec.Encode(p))
					case 1:
						p := refcodec.New(refcodec.Unsubscribe, ver)
						p.PacketID = uint16(1 + rng.Intn(200))
						p.Filters = []refcodec.Filter{{Filter: []string{"s/#", "s/+", "s/a"}[rng.Intn(3)]}}
						p.HasProps = ver == 5
						_ = c.c.Send(refcodec.Encode(p))
					default:
						p := refcodec.New(refcodec.Publish, ver)
						p.Topic, p.Payload, p.Qos = topics[rng.Intn(len(topics))], []byte("x"), byte(rng.Intn(2))
						p.Retain = rng.Intn(6) == 0
						if p.Qos > 0 {
							p.PacketID = uint16(300 + rng.Intn(200))
						}
						p.HasProps = ver == 5
						_ = c.c.Send(refcodec.Encode(p))
					}
					atomic.AddInt64(&res.Packets, 1)
					// acknowledge what arrived
					b, _ := c.c.Take()
					c.buf = append(c.buf, b...)
					pk, used, _ := refcodec.SplitStream(c.buf)
					c.buf = c.buf[used:]
					for _, raw := range pk {
						if q, err := refcodec.DecodeLenient(raw, ver); err == nil && q != nil && q.Type == refcodec.Publish && q.Qos == 1 {
							a := refcodec.New(refcodec.Puback, ver)
							a.PacketID = q.PacketID
							_ = c.c.Send(refcodec.Encode(a))
						}
					}
				}
				if rng.Intn(2) == 0 {
					_ = c.c.Send(refcodec.Encode(refcodec.New(refcodec.Disconnect, ver)))
				}
				c.c.Drop()
				select {
				case <-done:
				case <-time.After(5 * time.Second):
				}
				atomic.AddInt64(&res.Sessions, 1)
			}
		}(w)
	}
	time.Sleep(time.Duration(seconds) * time.Second)
	stop.Store(true)
	fin := make(chan struct{})
	go func() { wg.Wait(); close(fin) }()
	select {
	case <-fin:
		res.Finished = true
	case <-time.After(15 * time.Second):
		buf := make([]byte, 4<<20)
		res.StuckOnLocks = brokerFrames(string(buf[:runtime.Stack(buf, true)]))
	}
	cl := make(chan struct{})
	go func() { _ = srv.Close(); close(cl) }()
	select {
	case <-cl:
		res.CloseReturned = true
	case <-time.After(10 * time.Second):
		buf := make([]byte, 4<<20)
		res.StuckOnLocks = append(res.StuckOnLocks, brokerFrames(string(buf[:runtime.Stack(buf, true)]))...)
	}

	// ---- scenario 2: a subscriber stops reading; a publisher of QoS 1 messages to it must stay served
	srv2 := newStressServer()
	sub := &sclient{c: newMemConn(), ver: 5}
	pub := &sclient{c: newMemConn(), ver: 5}
	go func() { _ = srv2.EstablishConnection("mem", sub.c) }()
	go func() { _ = srv2.EstablishConnection("mem", pub.c) }()
	_ = sub.c.Send(connectBytes("slow", 5, true))
	_ = pub.c.Send(connectBytes("pub", 5, true))
	sub.recv(2*time.Second, refcodec.Connack)
	pub.recv(2*time.Second, refcodec.Connack)
	sp := refcodec.New(refcodec.Subscribe, 5)
	sp.PacketID, sp.HasProps = 1, true
	sp.Filters = []refcodec.Filter{{Filter: "q/#", Options: 1}}
	_ = sub.c.Send(refcodec.Encode(sp))
	sub.recv(2*time.Second, refcodec.Suback)
	sub.c.SetStall(true)
	for i := 0; i < 3; i++ {
		p := refcodec.New(refcodec.Publish, 5)
		p.Topic, p.Payload, p.Qos, p.PacketID, p.HasProps = "q/x", []byte("m"), 1, uint16(10+i), true
		_ = pub.c.Send(refcodec.Encode(p))
		if i == 0 { // the first message is on its way to the subscriber, whose connection does not take it
			for dl := time.Now().Add(2 * time.Second); time.Now().Before(dl) && !sub.c.WriterBlocked(); {
				time.Sleep(100 * time.Microsecond)
			}
		}
	}
	_ = pub.c.Send(refcodec.Encode(refcodec.New(refcodec.Pingreq, 5)))
	t0 := time.Now()
	if _, ok := pub.recv(time.Duration(res.StallLimitMs)*time.Millisecond, refcodec.Pingresp); ok {
		res.StallPingMs = time.Since(t0).Milliseconds()
	} else {
		res.StallPingMs = -1
		buf := make([]byte, 4<<20)
		res.StallBlockedAt = brokerFrames(string(buf[:runtime.Stack(buf, true)]))
	}
	sub.c.SetStall(false)
	if res.StallPingMs >= 0 {
		res.StallRecovered = true
	} else if _, ok := pub.recv(3*time.Second, refcodec.Pingresp); ok {
		res.StallRecovered = true
	}
	sub.c.Drop()
	pub.c.Drop()
	go func() { _ = srv2.Close() }()
	return res
}
