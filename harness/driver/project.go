package driver

import (
	"sort"
	"strings"

	mqtt "github.com/mochi-mqtt/server/v2"
	"github.com/mochi-mqtt/server/v2/packets"
)

func subSt(c string, kind, g string, s packets.Subscription, path string) SubSt {
	return SubSt{F: levels(path), FS: s.Filter, Qos: int(s.Qos), NL: s.NoLocal, RAP: s.RetainAsPublished,
		RH: int(s.RetainHandling), ID: s.Identifier, C: c, Kind: kind, G: g}
}

func normState(s *State) {
	if s.Clients == nil {
		s.Clients = []ClientSt{}
	}
	if s.Trie == nil {
		s.Trie = []SubSt{}
	}
	if s.RetPaths == nil {
		s.RetPaths = []string{}
	}
	if s.Retained == nil {
		s.Retained = []RetSt{}
	}
	if s.Delayed == nil {
		s.Delayed = []WillSt{}
	}
}

func (h *History) project() State {
	st := State{Now: h.now()}
	all := h.Srv.Clients.GetAll()
	ids := make([]string, 0, len(all))
	for id := range all {
		ids = append(ids, id)
	}
	sort.Strings(ids)
	h.mu.Lock()
	by := map[*mqtt.Client]string{}
	for cl, c := range h.byCl {
		by[cl] = c.name
	}
	h.mu.Unlock()
	for _, id := range ids {
		cl := all[id]
		cs := ClientSt{ID: id, K: by[cl], Closed: cl.Closed(), TakenOver: cl.IsTakenOver(), StopTime: cl.StopTime(),
			V: int(cl.Properties.ProtocolVersion), Clean: cl.Properties.Clean,
			SEI: int64(cl.Properties.Props.SessionExpiryInterval), SEIFlag: cl.Properties.Props.SessionExpiryIntervalFlag,
			Subs: []SubSt{}, Inflight: []InfSt{}, AliasOut: [][2]any{}, AliasIn: [][2]any{}, Inline: cl.Net.Inline}
		subs := cl.State.Subscriptions.GetAll()
		fk := make([]string, 0, len(subs))
		for f := range subs {
			fk = append(fk, f)
		}
		sort.Strings(fk)
		for _, f := range fk {
			s := subs[f]
			kind, g, path := "client", "", f
			if mqtt.IsSharedFilter(f) {
				parts := strings.SplitN(f, "/", 3)
				kind = "shared"
				if len(parts) == 3 {
					g, path = parts[1], parts[2]
				}
			}
			cs.Subs = append(cs.Subs, subSt(id, kind, g, s, path))
		}
		inf := cl.State.Inflight.GetAll(false)
		sort.Slice(inf, func(i, j int) bool { return inf[i].PacketID < inf[j].PacketID })
		for _, p := range inf {
			cs.Inflight = append(cs.Inflight, InfSt{Pid: int(p.PacketID), T: int(p.FixedHeader.Type), Qos: int(p.FixedHeader.Qos),
				M: msgID(p.Payload), TS: p.TopicName, Created: p.Created, Expiry: p.Expiry, Dup: p.FixedHeader.Dup})
		}
		a, b, c, d := cl.VerifQuotas()
		cs.SendQ, cs.RecvQ, cs.MaxSend, cs.MaxRecv = int(a), int(b), int(c), int(d)
		cs.PidCur = int(cl.VerifPacketID())
		cs.OutQ = int(cl.VerifOutboundQty())
		// the write buffer is guarded by the client's lock, which the write loop holds while it is blocked on a peer
		// that has stopped reading: not read then (-1)
		cs.OutBuf = -1
		stalled := false
		if cl.Net.Conn != nil {
			if v, ok := registry.Load(cl.Net.Conn); ok && v.(*conn).stalled {
				stalled = true
			}
		}
		if !stalled {
			cs.OutBuf = cl.VerifOutbufLen()
		}
		cs.WillFlag = cl.Properties.Will.Flag != 0
		in, out := cl.VerifAliases()
		ok := make([]string, 0, len(out))
		for t := range out {
			ok = append(ok, t)
		}
		sort.Strings(ok)
		for _, t := range ok {
			cs.AliasOut = append(cs.AliasOut, [2]any{t, int(out[t])})
		}
		ik := make([]int, 0, len(in))
		for a := range in {
			ik = append(ik, int(a))
		}
		sort.Ints(ik)
		for _, a := range ik {
			cs.AliasIn = append(cs.AliasIn, [2]any{a, in[uint16(a)]})
		}
		st.Clients = append(st.Clients, cs)
	}
	for _, en := range h.Srv.Topics.VerifDumpTopics() {
		switch en.Kind {
		case "client":
			st.Trie = append(st.Trie, subSt(en.Client, "client", "", en.Sub, en.Path))
		case "shared":
			st.Trie = append(st.Trie, subSt(en.Client, "shared", en.Group, en.Sub, en.Path))
		case "inline":
			s := subSt("", "inline", "", en.Sub, en.Path)
			s.ID = en.ID
			st.Trie = append(st.Trie, s)
		case "retain":
			st.RetPaths = append(st.RetPaths, en.Retain)
		}
	}
	sort.Slice(st.Trie, func(i, j int) bool {
		a, b := st.Trie[i], st.Trie[j]
		if a.Kind != b.Kind {
			return a.Kind < b.Kind
		}
		if a.C != b.C {
			return a.C < b.C
		}
		if a.FS != b.FS {
			return a.FS < b.FS
		}
		return a.ID < b.ID
	})
	sort.Strings(st.RetPaths)
	ret := h.Srv.Topics.Retained.GetAll()
	rk := make([]string, 0, len(ret))
	for t := range ret {
		rk = append(rk, t)
	}
	sort.Strings(rk)
	for _, t := range rk {
		p := ret[t]
		if strings.HasPrefix(t, "$SYS") {
			continue
		}
		st.Retained = append(st.Retained, RetSt{T: levels(t), TS: t, M: msgID(p.Payload), Qos: int(p.FixedHeader.Qos),
			Created: p.Created, Expiry: p.Expiry, Origin: p.Origin})
	}
	dw := h.Srv.VerifDelayedWills()
	dk := make([]string, 0, len(dw))
	for c := range dw {
		dk = append(dk, c)
	}
	sort.Strings(dk)
	for _, c := range dk {
		p := dw[c]
		st.Delayed = append(st.Delayed, WillSt{C: c, TS: p.TopicName, M: msgID(p.Payload), Due: p.Expiry})
	}
	inf := h.Srv.Info.Clone()
	st.Info = InfoSt{Connected: inf.ClientsConnected, Subscriptions: inf.Subscriptions, Retained: inf.Retained,
		Inflight: inf.Inflight, InflightDropped: inf.InflightDropped, MessagesDropped: inf.MessagesDropped, ClientsTotal: inf.ClientsTotal}
	normState(&st)
	return st
}
