package driver

import (
	"encoding/hex"
	"fmt"
	"io"
	"log/slog"
	"math"
	"net"
	"sort"
	"strings"
	"sync"
	"time"

	mqtt "github.com/mochi-mqtt/server/v2"
	"github.com/mochi-mqtt/server/v2/packets"

	"verifharness/refcodec"
)

// registry maps the broker-side net.Conn of every live harness connection to its conn record, so
// that the process-wide schedule hook can dispatch to the right history.
var registry sync.Map

func init() {
	mqtt.VerifSched = func(point string, cl *mqtt.Client) {
		if cl == nil || cl.Net.Conn == nil {
			return
		}
		if v, ok := registry.Load(cl.Net.Conn); ok {
			v.(*conn).atPoint(point, cl)
		}
	}
}

type pending struct {
	pid int
	qos int
	rec bool
}

type conn struct {
	h       *History
	name    string
	id      string
	version int
	theirs  *memConn // broker end (the harness talks to it through Send/Take/Drop)
	cl      *mqtt.Client

	mu      sync.Mutex
	buf     []byte // bytes taken from the connection, not yet a complete packet
	dropped bool
	done    bool
	stalled bool

	handled     chan struct{}
	established chan struct{}
	doneCh      chan struct{}
	retErr      error

	gmu     sync.Mutex
	armed   map[string]bool
	reached chan string
	release chan struct{}

	unacked  []pending
	reported [][]byte // bytes of packets reported through OnPacketSent since the last step
	eofSeen  bool     // EOF already reported in an earlier step
	doneSeen bool
}

func (c *conn) atPoint(point string, cl *mqtt.Client) {
	if c.cl == nil {
		c.cl = cl
		c.h.bind(cl)
	}
	switch point {
	case "read.handled":
		select {
		case c.handled <- struct{}{}:
		default:
		}
	case "attach.established":
		select {
		case c.established <- struct{}{}:
		default:
		}
	}
	c.gmu.Lock()
	armed := c.armed[point]
	if armed {
		delete(c.armed, point)
	}
	c.gmu.Unlock()
	if !writePathPoint[point] || armed {
		c.h.gate(c.name + ":" + point)
	}
	if armed {
		c.reached <- point
		<-c.release
	}
}

// schedule points of the read/write path: passed many times per operation, recorded only when a history arms them
// (the write-path schedules of OutPath.tla have their own runner, outpath.go)
var writePathPoint = map[string]bool{"read.handled": true, "write.afterClosedCheck": true, "loop.dequeued": true,
	"write.encoded": true, "write.unlocked": true}

// History is one execution of an op list on a fresh broker.
type History struct {
	Cfg    Config
	Srv    *mqtt.Server
	rec    *recHook
	conns  map[string]*conn
	order  []string
	mu     sync.Mutex
	byCl   map[*mqtt.Client]*conn
	gates  []string
	Events []Event
	seq    int
	t0     int64
	late   []ScriptedHook // scripted hooks still to be attached (op "late_hook")
}

func (h *History) bind(cl *mqtt.Client) {
	if cl == nil || cl.Net.Conn == nil {
		return
	}
	if v, ok := registry.Load(cl.Net.Conn); ok {
		c := v.(*conn)
		h.mu.Lock()
		h.byCl[cl] = c
		if c.cl == nil {
			c.cl = cl
		}
		h.mu.Unlock()
	}
}

func (h *History) gate(s string) {
	h.mu.Lock()
	h.gates = append(h.gates, s)
	h.mu.Unlock()
}

func (h *History) sent(cl *mqtt.Client, pk packets.Packet, b []byte) {
	h.mu.Lock()
	c := h.byCl[cl]
	h.mu.Unlock()
	if c == nil {
		if v, ok := registry.Load(cl.Net.Conn); ok {
			c = v.(*conn)
		}
	}
	if c != nil {
		// (the byte slice handed to the hook is empty when the packet was written directly: identify by type and id)
		cp := []byte(fmt.Sprintf("%d:%d", pk.FixedHeader.Type, pk.PacketID))
		c.mu.Lock()
		c.reported = append(c.reported, cp)
		c.mu.Unlock()
	}
}

type nullWriter struct{}

func (nullWriter) Write(p []byte) (int, error) { return len(p), nil }

// NewHistory boots a broker for cfg.
func NewHistory(cfg Config) *History {
	h := &History{Cfg: cfg, conns: map[string]*conn{}, byCl: map[*mqtt.Client]*conn{}, t0: time.Now().Unix()}
	caps := mqtt.NewDefaultServerCapabilities()
	caps.MaximumQos = byte(cfg.MaxQos)
	caps.RetainAvailable = byte(cfg.RetainAvail)
	caps.ReceiveMaximum = uint16(cfg.RecvMax)
	caps.MaximumInflight = uint16(cfg.MaxInflight)
	caps.MaximumClientWritesPending = int32(cfg.MaxPending)
	caps.MaximumMessageExpiryInterval = cfg.MaxMsgExpiry
	if cfg.MaxSessExpiry >= 0 {
		caps.MaximumSessionExpiryInterval = uint32(cfg.MaxSessExpiry)
	} else {
		caps.MaximumSessionExpiryInterval = math.MaxUint32
	}
	caps.TopicAliasMaximum = uint16(cfg.TopicAliasMax)
	if cfg.MaxClients > 0 {
		caps.MaximumClients = cfg.MaxClients
	}
	caps.MaximumPacketSize = uint32(cfg.MaxPacketSize)
	if cfg.MinProto > 0 {
		caps.MinimumProtocolVersion = byte(cfg.MinProto)
	}
	caps.Compatibilities.ObscureNotAuthorized = cfg.Obscure
	opts := &mqtt.Options{
		Capabilities:             caps,
		ClientNetWriteBufferSize: cfg.WriteBuf,
		InlineClient:             cfg.Inline,
		Logger:                   slog.New(slog.NewTextHandler(nullWriter{}, &slog.HandlerOptions{Level: slog.LevelError + 8})),
	}
	h.Srv = mqtt.New(opts)
	if cfg.MaxPacketID > 0 {
		h.Srv.VerifSetMaxPacketID(uint32(cfg.MaxPacketID))
	}
	h.rec = &recHook{h: h}
	_ = h.Srv.AddHook(h.rec, nil)
	early := len(cfg.Scripted) - cfg.Late
	if early < 0 {
		early = 0
	}
	for _, s := range cfg.Scripted[:early] {
		_ = h.Srv.AddHook(&scriptHook{s: s, r: h.rec}, nil)
	}
	h.late = append([]ScriptedHook{}, cfg.Scripted[early:]...)
	switch cfg.Auth {
	case "allow", "acl", "acl_only":
		c := cfg
		_ = h.Srv.AddHook(&aclHook{cfg: &c}, nil)
	}
	first := Event{Ev: "Config", Cfg: &cfg}
	h.emit(&first)
	return h
}

// Close tears the broker down.
func (h *History) Close() {
	for _, n := range h.order {
		c := h.conns[n]
		c.theirs.Drop()
	}
	for _, n := range h.order {
		c := h.conns[n]
		select {
		case <-c.doneCh:
		case <-time.After(2 * time.Second):
		}
		registry.Delete(net.Conn(c.theirs))
	}
}

func (h *History) now() int64 { return time.Now().Unix() }

func (h *History) emit(e *Event) {
	h.seq++
	e.I = h.seq
	if e.Out == nil {
		e.Out = map[string][]Pkt{}
	}
	if e.Closed == nil {
		e.Closed = []string{}
	}
	if e.Sent == nil {
		e.Sent = map[string][]string{}
	}
	if e.Hooks == nil {
		e.Hooks = []HookEv{}
	}
	if e.Gates == nil {
		e.Gates = []string{}
	}
	if e.Conns == nil {
		e.Conns = []ConnSt{}
	}
	normState(&e.St)
	normOp(&e.A)
	h.Events = append(h.Events, *e)
}

func normOp(o *Op) {
	if o.Filters == nil {
		o.Filters = []SubOpt{}
	}
	if o.T == nil {
		o.T = []string{}
	}
	if o.UP == nil {
		o.UP = [][2]string{}
	}
	if o.DurT == nil {
		o.DurT = []string{}
	}
}

func (h *History) newConn(name string, version int, id string) *conn {
	b := newMemConn()
	c := &conn{h: h, name: name, version: version, id: id, theirs: b,
		handled: make(chan struct{}, 64), established: make(chan struct{}, 4), doneCh: make(chan struct{}),
		armed: map[string]bool{}, reached: make(chan string, 4), release: make(chan struct{}, 4)}
	registry.Store(net.Conn(b), c)
	h.conns[name] = c
	h.order = append(h.order, name)
	go func() { // handler
		defer func() {
			if r := recover(); r != nil {
				c.retErr = fmt.Errorf("PANIC: %v", r)
			}
			c.mu.Lock()
			c.done = true
			c.mu.Unlock()
			close(c.doneCh)
		}()
		c.retErr = h.Srv.EstablishConnection("t1", b)
	}()
	return c
}

func (c *conn) write(b []byte) error { return c.theirs.Send(b) }

// wait for one of: packet handled, handler returned, (connect) established, gate reached.
func (c *conn) await(connect bool, timeout time.Duration) string {
	t := time.After(timeout)
	if connect {
		select {
		case <-c.established:
			return "established"
		case <-c.doneCh:
			return "done"
		case p := <-c.reached:
			return "gate:" + p
		case <-t:
			return "timeout"
		}
	}
	select {
	case <-c.handled:
		return "handled"
	case <-c.doneCh:
		return "done"
	case p := <-c.reached:
		return "gate:" + p
	case <-t:
		return "timeout"
	}
}

// quiesce waits until every open client's outbound queue is empty (all accepted packets written).
func (h *History) quiesce() bool {
	deadline := time.Now().Add(3 * time.Second)
	for {
		busy := false
		seen := map[*mqtt.Client]bool{}
		check := func(cl *mqtt.Client) {
			if cl == nil || seen[cl] {
				return
			}
			seen[cl] = true
			if cl.Net.Conn == nil || cl.Closed() {
				return
			}
			if v, ok := registry.Load(cl.Net.Conn); ok && v.(*conn).stalled {
				return
			}
			if cl.VerifOutboundQty() > 0 {
				busy = true
			}
		}
		for _, cl := range h.Srv.Clients.GetAll() {
			check(cl)
		}
		h.mu.Lock()
		for cl := range h.byCl {
			check(cl)
		}
		h.mu.Unlock()
		if !busy {
			return true
		}
		if time.Now().After(deadline) {
			return false
		}
		time.Sleep(200 * time.Microsecond)
	}
}

func levels(s string) []string {
	if s == "" {
		return []string{}
	}
	return strings.Split(s, "/")
}

func (h *History) collect(e *Event) {
	for _, n := range h.order {
		c := h.conns[n]
		nb, brokerClosed := c.theirs.Take()
		c.mu.Lock()
		c.buf = append(c.buf, nb...)
		data := c.buf
		eof, done := brokerClosed, c.done
		rep := c.reported
		c.reported = nil
		c.mu.Unlock()
		if len(rep) > 0 {
			hs := make([]string, len(rep))
			for i, r := range rep {
				hs[i] = string(r)
			}
			e.Sent[n] = hs
		}
		raws, used, err := refcodec.SplitStream(data)
		pk := []Pkt{}
		for _, r := range raws {
			pk = append(pk, abstract(r, byte(c.version)))
		}
		c.mu.Lock()
		c.buf = c.buf[used:]
		left := len(c.buf)
		c.mu.Unlock()
		if err != nil || (left > 0 && !c.stalled) {
			p := Pkt{T: 0, WF: "partial-or-garbage", Hex: hex.EncodeToString(data[used:]), Len: left}
			normPkt(&p)
			pk = append(pk, p)
			c.mu.Lock()
			c.buf = nil
			c.mu.Unlock()
		}
		for _, p := range pk {
			if p.T == int(refcodec.Publish) && p.Qos > 0 {
				dupOf := false
				for _, u := range c.unacked {
					if u.pid == p.Pid {
						dupOf = true
					}
				}
				if !dupOf {
					c.unacked = append(c.unacked, pending{pid: p.Pid, qos: p.Qos})
				}
			}
		}
		if len(pk) > 0 {
			e.Out[n] = pk
		}
		if (eof && !c.eofSeen) || (done && !c.doneSeen) {
			e.Closed = append(e.Closed, n)
		}
		c.eofSeen = c.eofSeen || eof
		c.doneSeen = c.doneSeen || done
		e.Conns = append(e.Conns, ConnSt{K: n, C: c.id, V: c.version, EOF: eof, Dropped: c.dropped, Done: done, Stalled: c.stalled})
	}
	e.Hooks = h.rec.take()
	h.mu.Lock()
	e.Gates = h.gates
	h.gates = nil
	h.mu.Unlock()
	e.St = h.project()
}

func propInt(p *refcodec.Packet, id byte) int {
	if v, ok := p.Prop(id); ok {
		return int(v.Int)
	}
	return -1
}

func abstract(raw []byte, version byte) Pkt {
	p := Pkt{Hex: hex.EncodeToString(raw), Len: len(raw), MEI: -1, SrvKA: -1, SEI: -1, RecvM: -1, MaxQ: -1, TAM: -1}
	d, err := refcodec.Decode(raw, version, refcodec.FromServer)
	if err != nil {
		p.WF = "malformed"
		if m, ok := err.(*refcodec.Malformed); ok {
			p.WF = m.Rule
		}
		d, err = refcodec.DecodeLenient(raw, version)
		if err != nil || d == nil {
			if len(raw) > 0 {
				p.T = int(raw[0] >> 4)
			}
			normPkt(&p)
			return p
		}
	}
	p.T = int(d.Type)
	p.Qos, p.Dup, p.Ret, p.Pid = int(d.Qos), d.Dup, d.Retain, int(d.PacketID)
	p.TS = d.Topic
	p.Topic = levels(d.Topic)
	p.M = msgID(d.Payload)
	p.Plen = len(d.Payload)
	p.RC, p.HasRC, p.SP = int(d.ReasonCode), d.HasReason, d.SessionPresent
	for _, c := range d.ReasonCodes {
		p.Codes = append(p.Codes, int(c))
	}
	for _, pr := range d.Props {
		p.Props = append(p.Props, int(pr.ID))
		switch pr.ID {
		case refcodec.PropSubscriptionID:
			p.Sid = append(p.Sid, int(pr.Int))
		case refcodec.PropTopicAlias:
			p.Alias = int(pr.Int)
		case refcodec.PropMessageExpiry:
			p.MEI = int(pr.Int)
		case refcodec.PropContentType:
			p.CT = pr.Str
		case refcodec.PropResponseTopic:
			p.RT = pr.Str
		case refcodec.PropCorrelationData:
			p.CD = string(pr.Bin)
		case refcodec.PropUser:
			p.UP = append(p.UP, [2]string{pr.Str, pr.Val})
		case refcodec.PropReasonString:
			p.RS = true
		case refcodec.PropResponseInfo:
			p.RI = true
		case refcodec.PropAssignedClientID:
			p.ACID = pr.Str
		case refcodec.PropServerKeepAlive:
			p.SrvKA = int(pr.Int)
		case refcodec.PropSessionExpiry:
			p.SEI = int64(pr.Int)
		case refcodec.PropReceiveMaximum:
			p.RecvM = int(pr.Int)
		case refcodec.PropMaximumQos:
			p.MaxQ = int(pr.Int)
		case refcodec.PropTopicAliasMax:
			p.TAM = int(pr.Int)
		}
	}
	sort.Ints(p.Sid)
	normPkt(&p)
	return p
}

func normPkt(p *Pkt) {
	if p.Topic == nil {
		p.Topic = []string{}
	}
	if p.Sid == nil {
		p.Sid = []int{}
	}
	if p.UP == nil {
		p.UP = [][2]string{}
	}
	if p.Codes == nil {
		p.Codes = []int{}
	}
	if p.Props == nil {
		p.Props = []int{}
	}
}

var _ = io.EOF
