package driver

// Runner for the write-path schedules of spec/OutPath.tla: one subscribed client on an in-memory
// connection, its write loop and its reader parked at the schedule points of WriteLoop/WritePacket and
// inside the connection's Write; every step of a TLC-generated schedule releases one goroutine and
// records where it (and a goroutine that was waiting for the client lock) gets to, plus a projection of
// the client's output state. The runner holds no expectation: TLC (TraceOutPath) judges the record.

import (
	"bytes"
	"fmt"
	"log/slog"
	"runtime"
	"strconv"
	"sync"
	"sync/atomic"
	"time"

	mqtt "github.com/mochi-mqtt/server/v2"
	"github.com/mochi-mqtt/server/v2/listeners"
	"github.com/mochi-mqtt/server/v2/packets"

	"verifharness/refcodec"
)

type OutStep struct {
	W  string `json:"w"`  // "env", "loop", "rd"
	G  string `json:"g"`  // env: pub:small|pub:big|pub:over|ping; else the schedule point w is expected to reach ("blocked", "idle": none)
	OG string `json:"og"` // where the other goroutine is expected to get to ("" = it does not move)
}

type OutScenario struct {
	Name  string    `json:"name"`
	Cap   int       `json:"cap"`
	Aged  bool      `json:"aged"` // messages come from an MQTT 5 publisher and expire after 1 s (server maximum); "age" steps let time pass
	Steps []OutStep `json:"steps"`
}

type OutObs struct {
	Q       int   `json:"q"`    // packets in the pending-write queue
	Ob      int   `json:"ob"`   // bytes in the write buffer, -1 when the client lock is held
	Wire    []int `json:"wire"` // ids of the packets on the connection, in order (-1: undecodable bytes)
	Sent    []int `json:"sent"` // ids reported by OnPacketSent
	Dropped []int `json:"dropped"`
	MaxW    int   `json:"maxw"` // most Write calls ever in progress on the connection at once
	InW     int   `json:"inw"`
	Closed  bool  `json:"closed"` // the broker has closed the connection
}

type OutLine struct {
	Ev    string `json:"ev"` // "cfg", "step", "end"
	Name  string `json:"name"`
	Cap   int    `json:"cap"`
	I     int    `json:"i"`
	W     string `json:"w"`
	G     string `json:"g"`
	OG    string `json:"og"`
	Got   string `json:"got"`
	GotO  string `json:"goto"`
	Note  string `json:"note"`
	Obs   OutObs `json:"obs"`
	Sizes []int  `json:"sizes"` // cfg line: measured sizes of small / big / PINGRESP and the buffer threshold
}

// sizes of the model (OutPath.tla constants of the trace specification)
const (
	outBuf      = 24
	outSmall    = 11
	outBig      = 30
	outMPS      = 64
	outWaitNone = 25 * time.Millisecond
	outWait     = 3 * time.Second
)

func goid() int64 {
	var b [64]byte
	n := runtime.Stack(b[:], false)
	f := bytes.Fields(b[:n])
	if len(f) < 2 {
		return -1
	}
	v, _ := strconv.ParseInt(string(f[1]), 10, 64)
	return v
}

type outArrival struct {
	g  int64
	pt string
}

type outRun struct {
	srv   *mqtt.Server
	conn  *outConn
	cl    atomic.Pointer[mqtt.Client]
	gated atomic.Bool
	mu    sync.Mutex
	park  map[int64]chan struct{} // goroutine -> release channel while parked
	arr   chan outArrival
	loopG atomic.Int64
	rdG   atomic.Int64
	sent  []int
	drop  []int
	npr   int // PINGRESPs reported
	raw   []byte
	wire  []int
	nprW  int
}

// outConn gates Write: the call is a schedule point of its own
type outConn struct {
	*memConn
	r    *outRun
	inW  atomic.Int32
	maxW atomic.Int32
}

func (c *outConn) Write(b []byte) (int, error) {
	n := c.inW.Add(1)
	for {
		m := c.maxW.Load()
		if n <= m || c.maxW.CompareAndSwap(m, n) {
			break
		}
	}
	defer c.inW.Add(-1)
	c.r.at("conn.write")
	return c.memConn.Write(b)
}

func (r *outRun) at(pt string) {
	g := goid()
	if pt == "loop.dequeued" && r.loopG.Load() == 0 {
		r.loopG.Store(g)
	}
	if pt == "read.handled" && r.rdG.Load() == 0 {
		r.rdG.Store(g)
	}
	if !r.gated.Load() {
		return
	}
	ch := make(chan struct{})
	r.mu.Lock()
	r.park[g] = ch
	r.mu.Unlock()
	r.arr <- outArrival{g, pt}
	<-ch
}

var outPoints = map[string]bool{"loop.dequeued": true, "write.afterClosedCheck": true, "write.encoded": true,
	"write.unlocked": true, "read.handled": true, "disconnect.written": true}

func (r *outRun) sched(point string, cl *mqtt.Client) {
	if cl == nil || cl.Net.Conn == nil || !outPoints[point] {
		return
	}
	if c, ok := cl.Net.Conn.(*outConn); !ok || c != r.conn {
		return
	}
	r.at(point)
}

func (r *outRun) release(g int64) bool {
	r.mu.Lock()
	ch := r.park[g]
	delete(r.park, g)
	r.mu.Unlock()
	if ch == nil {
		return false
	}
	close(ch)
	return true
}

type outHook struct {
	mqtt.HookBase
	r *outRun
}

func (h *outHook) ID() string { return "verif-outpath" }
func (h *outHook) Provides(b byte) bool {
	return b == mqtt.OnConnectAuthenticate || b == mqtt.OnACLCheck || b == mqtt.OnPacketSent || b == mqtt.OnPublishDropped
}
func (h *outHook) OnConnectAuthenticate(*mqtt.Client, packets.Packet) bool { return true }
func (h *outHook) OnACLCheck(*mqtt.Client, string, bool) bool              { return true }
func (h *outHook) OnPacketSent(cl *mqtt.Client, pk packets.Packet, b []byte) {
	if cl != h.r.cl.Load() || !h.r.gated.Load() && !h.r.draining() {
		return
	}
	h.r.mu.Lock()
	switch pk.FixedHeader.Type {
	case packets.Publish:
		h.r.sent = append(h.r.sent, payloadID(pk.Payload))
	case packets.Pingresp:
		h.r.npr++
		h.r.sent = append(h.r.sent, 200+h.r.npr)
	case packets.Disconnect:
		h.r.sent = append(h.r.sent, 300)
	}
	h.r.mu.Unlock()
}
func (h *outHook) OnPublishDropped(cl *mqtt.Client, pk packets.Packet) {
	if cl != h.r.cl.Load() {
		return
	}
	h.r.mu.Lock()
	h.r.drop = append(h.r.drop, payloadID(pk.Payload))
	h.r.mu.Unlock()
}

var outDraining atomic.Bool

func (r *outRun) draining() bool { return outDraining.Load() }

func payloadID(p []byte) int {
	if len(p) < 3 {
		return -1
	}
	v, err := strconv.Atoi(string(p[:3]))
	if err != nil {
		return -1
	}
	return v
}

type outListener struct{}

func (outListener) Init(*slog.Logger) error     { return nil }
func (outListener) Serve(listeners.EstablishFn) {}
func (outListener) ID() string                  { return "mem" }
func (outListener) Address() string             { return "mem" }
func (outListener) Protocol() string            { return "mem" }
func (outListener) Close(c listeners.CloseFn)   { c("mem") }

// pump decodes what has arrived on the connection since the last call
func (r *outRun) pump() {
	b, _ := r.conn.Take()
	r.raw = append(r.raw, b...)
	pkts, n, _ := refcodec.SplitStream(r.raw)
	r.raw = r.raw[n:]
	for _, raw := range pkts {
		p, err := refcodec.DecodeLenient(raw, 5)
		if err != nil || p == nil {
			r.wire = append(r.wire, -1)
			continue
		}
		switch p.Type {
		case refcodec.Publish:
			r.wire = append(r.wire, payloadID(p.Payload))
		case refcodec.Pingresp:
			r.nprW++
			r.wire = append(r.wire, 200+r.nprW)
		case refcodec.Disconnect:
			r.wire = append(r.wire, 300)
		default:
			r.wire = append(r.wire, -int(p.Type)-100)
		}
	}
}

func (r *outRun) observe() OutObs {
	r.pump()
	cl := r.cl.Load()
	ob, ok := cl.VerifOutbufLenTry()
	// the lock is held for good only by a writer parked inside a connection write; otherwise a goroutine is just passing
	// through a critical section (e.g. the write loop's error handling on its way back to its select): look again
	for n := 0; !ok && r.conn.inW.Load() == 0 && n < 200; n++ {
		time.Sleep(100 * time.Microsecond)
		ob, ok = cl.VerifOutbufLenTry()
	}
	if !ok {
		ob = -1
	}
	r.mu.Lock()
	o := OutObs{Q: cl.VerifOutboundLen(), Ob: ob, Wire: append([]int{}, r.wire...), Sent: append([]int{}, r.sent...),
		Dropped: append([]int{}, r.drop...), MaxW: int(r.conn.maxW.Load()), InW: int(r.conn.inW.Load()), Closed: r.conn.isClosed()}
	r.mu.Unlock()
	if len(r.raw) > 0 {
		o.Wire = append(o.Wire, -1) // bytes that are not a whole packet
	}
	return o
}

func (r *outRun) who(g int64) string {
	switch g {
	case r.loopG.Load():
		return "loop"
	case r.rdG.Load():
		return "rd"
	}
	return "g" + strconv.FormatInt(g, 10)
}

// collect waits for the arrivals a step is expected to produce: want maps writer -> an arrival is expected. A writer
// that was released (rel) and is expected NOT to reach a schedule point (it waits for the client lock, or is back in its
// select / in Read) gets a moment to prove the opposite; a goroutine that stays parked cannot move and is not waited for.
// It returns where each writer got to ("" = no arrival).
func (r *outRun) collect(want map[string]bool, rel string) map[string]string {
	got := map[string]string{}
	need := 0
	for _, v := range want {
		if v {
			need++
		}
	}
	dl := time.After(outWait)
	for need > 0 {
		select {
		case a := <-r.arr:
			w := r.who(a.g)
			got[w] = a.pt
			if want[w] {
				need--
			}
		case <-dl:
			need = 0
		}
	}
	if rel != "" && !want[rel] && got[rel] == "" {
		if rel == "rd" {
			// exact: the reader is back in Read with nothing to read - or it reaches a schedule point / blocks on the lock
			dl := time.Now().Add(outWaitNone)
			for time.Now().Before(dl) && !r.conn.ReaderBlocked() && len(r.arr) == 0 {
				time.Sleep(50 * time.Microsecond)
			}
		} else {
			t := time.After(outWaitNone)
		loop:
			for {
				select {
				case a := <-r.arr:
					got[r.who(a.g)] = a.pt
					break loop
				case <-t:
					break loop
				}
			}
		}
	}
	for {
		select {
		case a := <-r.arr:
			got[r.who(a.g)] = a.pt
			continue
		default:
		}
		break
	}
	return got
}

func pubPayload(id int, total, base int) []byte {
	p := []byte(fmt.Sprintf("%03d", id))
	for len(p)+base < total {
		p = append(p, '.')
	}
	return p
}

// RunOutPath executes one scenario and returns the recorded lines.
func RunOutPath(sc OutScenario) (lines []OutLine) {
	r := &outRun{park: map[int64]chan struct{}{}, arr: make(chan outArrival, 16)}
	outDraining.Store(false)
	caps := mqtt.NewDefaultServerCapabilities()
	caps.MaximumClientWritesPending = int32(sc.Cap)
	caps.MaximumMessageExpiryInterval = 0
	small, big := outSmall, outBig
	if sc.Aged {
		caps.MaximumMessageExpiryInterval = 1
		small, big = outSmall+5, outBig+5 // the forwarded PUBLISH carries a Message Expiry Interval
	}
	r.srv = mqtt.New(&mqtt.Options{Capabilities: caps, InlineClient: true, ClientNetWriteBufferSize: outBuf,
		Logger: slog.New(slog.NewTextHandler(nullWriter{}, &slog.HandlerOptions{Level: slog.LevelError + 8}))})
	_ = r.srv.AddHook(&outHook{r: r}, nil)
	_ = r.srv.AddListener(outListener{})
	r.conn = &outConn{memConn: newMemConn(), r: r}
	prev := mqtt.VerifSched
	mqtt.VerifSched = r.sched
	defer func() { mqtt.VerifSched = prev }()
	fin := make(chan struct{})
	go func() {
		defer close(fin)
		defer func() { _ = recover() }()
		_ = r.srv.EstablishConnection("mem", r.conn)
	}()
	fail := func(note string) []OutLine {
		return append(lines, OutLine{Ev: "end", Name: sc.Name, Note: "harness: " + note, Obs: OutObs{Wire: []int{}, Sent: []int{}, Dropped: []int{}}})
	}
	lines = []OutLine{{Ev: "cfg", Name: sc.Name, Cap: sc.Cap, Obs: OutObs{Wire: []int{}, Sent: []int{}, Dropped: []int{}}}}
	defer func() {
		// end of the run: everything is let go and the connection closed
		r.gated.Store(false)
		r.mu.Lock()
		for g, ch := range r.park {
			close(ch)
			delete(r.park, g)
		}
		r.mu.Unlock()
		r.conn.Drop()
		select {
		case <-fin:
		case <-time.After(outWait):
		}
		_ = r.srv.Close()
	}()

	// set-up, not scheduled: CONNECT (MQTT 5, Maximum Packet Size), SUBSCRIBE t/#, one probe publish and one PINGREQ
	// (they also tell the runner which goroutine is the write loop and which the reader)
	c := refcodec.New(refcodec.Connect, 5)
	c.ProtoName, c.ProtoVersion, c.ClientID, c.ConnectFlags, c.HasProps = "MQTT", 5, "sub", 2, true
	c.Props = append(c.Props, u32(refcodec.PropMaximumPacketSize, outMPS))
	if r.conn.Send(refcodec.Encode(c)) != nil {
		return fail("connect")
	}
	s := refcodec.New(refcodec.Subscribe, 5)
	s.PacketID, s.HasProps = 1, true
	s.Filters = []refcodec.Filter{{Filter: "t/#", Options: 0}}
	_ = r.conn.Send(refcodec.Encode(s))
	waitFor := func(cond func() bool) bool {
		dl := time.Now().Add(outWait)
		for time.Now().Before(dl) {
			if cond() {
				return true
			}
			time.Sleep(100 * time.Microsecond)
		}
		return false
	}
	var setup []byte
	take := func() { b, _ := r.conn.Take(); setup = append(setup, b...) }
	if !waitFor(func() bool { take(); p, _, _ := refcodec.SplitStream(setup); return len(p) >= 2 }) {
		return fail("no CONNACK/SUBACK")
	}
	cl, ok := r.srv.Clients.Get("sub")
	if !ok {
		return fail("client not registered")
	}
	r.cl.Store(cl)
	setup = nil
	// where the messages come from: the inline client, or (aged) an MQTT 5 publisher on a connection of its own (not scheduled)
	var pubConn *memConn
	publish := func(payload []byte) bool {
		if pubConn == nil {
			return r.srv.Publish("t/a", payload, false, 0) == nil
		}
		pp := refcodec.New(refcodec.Publish, 5)
		pp.Topic, pp.Payload, pp.HasProps = "t/a", payload, true
		if pubConn.Send(refcodec.Encode(pp)) != nil || pubConn.Send([]byte{0xC0, 0}) != nil {
			return false
		}
		// the PINGRESP tells that the broker has routed the PUBLISH before it
		return waitFor(func() bool { b, _ := pubConn.Take(); return len(b) >= 2 })
	}
	if sc.Aged {
		pubConn = newMemConn()
		go func() { defer func() { _ = recover() }(); _ = r.srv.EstablishConnection("mem", pubConn) }()
		pc := refcodec.New(refcodec.Connect, 5)
		pc.ProtoName, pc.ProtoVersion, pc.ClientID, pc.ConnectFlags, pc.HasProps = "MQTT", 5, "pub", 2, true
		_ = pubConn.Send(refcodec.Encode(pc))
		if !waitFor(func() bool { b, _ := pubConn.Take(); return len(b) >= 4 }) {
			return fail("publisher got no CONNACK")
		}
		defer pubConn.Drop()
	}
	_ = publish(pubPayload(0, small, 0)[:3])
	if !waitFor(func() bool { take(); return len(setup) > 0 && r.loopG.Load() != 0 && cl.VerifOutboundQty() == 0 }) {
		return fail("probe publish not delivered")
	}
	base := len(setup) - 3 // size of a PUBLISH to t/a without payload
	setup = nil
	_ = r.conn.Send([]byte{0xC0, 0})
	if !waitFor(func() bool { take(); return len(setup) == 2 && r.rdG.Load() != 0 && r.conn.ReaderBlocked() }) {
		return fail("probe PINGREQ not answered")
	}
	if base+3 != small {
		return fail(fmt.Sprintf("a small PUBLISH has %d bytes, the model assumes %d", base+3, small))
	}
	lines[0].Sizes = []int{base + 3, big, 2, outBuf}
	r.conn.maxW.Store(0)
	r.gated.Store(true)

	nextID := 100
	other := func(w string) string {
		if w == "loop" {
			return "rd"
		}
		return "loop"
	}
	gOf := func(w string) int64 {
		if w == "loop" {
			return r.loopG.Load()
		}
		return r.rdG.Load()
	}
	moves := func(g string) bool {
		return g != "" && g != "blocked" && g != "idle" && g != "queued" && g != "dropped"
	}
	for i, st := range sc.Steps {
		ln := OutLine{Ev: "step", Name: sc.Name, Cap: sc.Cap, I: i + 1, W: st.W, G: st.G, OG: st.OG}
		var got map[string]string
		switch {
		case st.W == "env" && (st.G == "ping" || st.G == "bad"):
			if st.G == "ping" {
				_ = r.conn.Send([]byte{0xC0, 0})
			} else {
				_ = r.conn.Send(refcodec.Encode(c)) // a second CONNECT: answered with DISCONNECT 0x82, then the client is stopped
			}
			got = r.collect(map[string]bool{"rd": true, "loop": false}, "")
			ln.Got, ln.GotO = st.G, got["rd"]
		case st.W == "env" && st.G == "age":
			time.Sleep(2100 * time.Millisecond) // beyond the maximum message expiry of 1 s whatever the fraction of the second the message was created in
			ln.Got, ln.GotO = "age", ""
		case st.W == "env":
			nextID++
			total := map[string]int{"pub:small": small, "pub:big": big, "pub:over": outMPS + 20}[st.G]
			_ = publish(pubPayload(nextID, total, base))
			got = r.collect(map[string]bool{"loop": st.OG == "loop.dequeued", "rd": false}, "")
			ln.Got, ln.GotO = st.G, got["loop"]
			if ln.GotO == "" {
				ln.GotO = st.OG // "queued" / "dropped": told apart by the observation (queue length, reported drops)
				if st.OG == "loop.dequeued" {
					ln.GotO = "blocked"
				}
			}
		default:
			if !r.release(gOf(st.W)) {
				ln.Got, ln.Note = "not-parked", "the goroutine is not at a schedule point"
				break
			}
			o := other(st.W)
			got = r.collect(map[string]bool{st.W: moves(st.G), o: moves(st.OG)}, st.W)
			ln.Got, ln.GotO = got[st.W], got[o]
			if ln.Got == "" {
				ln.Got = "blocked"
				if st.G == "idle" {
					ln.Got = "idle" // no schedule point reached: back in the select / in Read (told apart from "blocked" by the model only)
				}
			}
			if ln.GotO == "" && st.OG == "idle" {
				ln.GotO = "idle"
			}
		}
		for w, pt := range got {
			if w != "loop" && w != "rd" {
				ln.Note += fmt.Sprintf("unknown goroutine %s at %s; ", w, pt)
			}
		}
		ln.Obs = r.observe()
		lines = append(lines, ln)
		if ln.Got != st.G && st.W != "env" || ln.GotO != st.OG {
			break // the code has left the schedule: the rest is dropped, the run is drained and judged at its end
		}
	}

	// drain: everything runs freely until the output path is at rest
	outDraining.Store(true)
	r.gated.Store(false)
	r.mu.Lock()
	for g, ch := range r.park {
		close(ch)
		delete(r.park, g)
	}
	r.mu.Unlock()
	rest := waitFor(func() bool {
		if r.conn.isClosed() {
			select {
			case <-fin:
				return true
			default:
				return false
			}
		}
		if cl.VerifOutboundLen() != 0 || cl.VerifOutboundQty() != 0 || r.conn.inW.Load() != 0 || !r.conn.ReaderBlocked() {
			return false
		}
		_, free := cl.VerifOutbufLenTry()
		return free
	})
	time.Sleep(2 * time.Millisecond)
	end := OutLine{Ev: "end", Name: sc.Name, Cap: sc.Cap, Obs: r.observe()}
	if !rest {
		end.Note = "harness: the output path did not come to rest"
	}
	select {
	case a := <-r.arr:
		end.Note += fmt.Sprintf("late arrival %s at %s", r.who(a.g), a.pt)
	default:
	}
	return append(lines, end)
}
