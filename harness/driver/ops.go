package driver

import (
	"encoding/hex"
	"fmt"
	"strings"
	"sync/atomic"
	"time"

	mqtt "github.com/mochi-mqtt/server/v2"
	"github.com/mochi-mqtt/server/v2/packets"

	"verifharness/refcodec"
)

func join(l []string) string { return strings.Join(l, "/") }

func payload(m string, pad int) []byte {
	if pad <= 0 || m == "" {
		return []byte(m)
	}
	return []byte(m + "|" + strings.Repeat("x", pad))
}

func u32(id byte, v uint32) refcodec.Prop { return refcodec.Prop{ID: id, Int: v} }

func (h *History) encodeConnect(o Op) []byte {
	v := byte(o.V)
	p := refcodec.New(refcodec.Connect, v)
	p.ProtoName = "MQTT"
	if v == 3 {
		p.ProtoName = "MQIsdp"
	}
	if o.Proto != "" {
		p.ProtoName = o.Proto
	}
	p.ProtoVersion = v
	p.KeepAlive = uint16(o.KA)
	p.ClientID = o.ID
	var fl byte
	if o.Clean {
		fl |= 2
	}
	if o.Will != nil {
		fl |= 4 | byte(o.Will.Qos)<<3
		if o.Will.Retain {
			fl |= 32
		}
		p.WillTopic = join(o.Will.T)
		p.WillPayload = []byte(o.Will.M)
		if v == 5 {
			p.HasWillProps = true
			if o.Will.Delay > 0 {
				p.WillProps = append(p.WillProps, u32(refcodec.PropWillDelay, uint32(o.Will.Delay)))
			}
		}
	}
	if o.User != "" {
		fl |= 128
		p.Username = []byte(o.User)
	}
	if o.Pass != "" {
		fl |= 64
		p.Password = []byte(o.Pass)
	}
	if o.RawFlags > 0 {
		fl = byte(o.RawFlags)
	}
	p.ConnectFlags = fl
	if v == 5 {
		p.HasProps = true
		if o.SEI >= 0 {
			p.Props = append(p.Props, u32(refcodec.PropSessionExpiry, uint32(o.SEI)))
		}
		if o.RM > 0 {
			p.Props = append(p.Props, u32(refcodec.PropReceiveMaximum, uint32(o.RM)))
		}
		if o.MPS > 0 {
			p.Props = append(p.Props, u32(refcodec.PropMaximumPacketSize, uint32(o.MPS)))
		}
		if o.TAM > 0 {
			p.Props = append(p.Props, u32(refcodec.PropTopicAliasMax, uint32(o.TAM)))
		}
		if o.RPI >= 0 {
			p.Props = append(p.Props, u32(refcodec.PropRequestProblemInfo, uint32(o.RPI)))
		}
		if o.RRI >= 0 {
			p.Props = append(p.Props, u32(refcodec.PropRequestResponseInfo, uint32(o.RRI)))
		}
	}
	return refcodec.Encode(p)
}

func (h *History) encodePublish(c *conn, o Op) []byte {
	p := refcodec.New(refcodec.Publish, byte(c.version))
	p.Qos, p.Retain, p.Dup = byte(o.Qos), o.Retain, o.Dup
	if !o.NoTopic {
		p.Topic = join(o.T)
	}
	p.PacketID = uint16(o.Pid)
	p.Payload = payload(o.M, o.Pad)
	if c.version == 5 {
		p.HasProps = true
		if o.MEI > 0 {
			p.Props = append(p.Props, u32(refcodec.PropMessageExpiry, uint32(o.MEI)))
		}
		if o.CT != "" {
			p.Props = append(p.Props, refcodec.Prop{ID: refcodec.PropContentType, Str: o.CT})
		}
		if o.RT != "" {
			p.Props = append(p.Props, refcodec.Prop{ID: refcodec.PropResponseTopic, Str: o.RT})
		}
		if o.CD != "" {
			p.Props = append(p.Props, refcodec.Prop{ID: refcodec.PropCorrelationData, Bin: []byte(o.CD)})
		}
		if o.Alias > 0 {
			p.Props = append(p.Props, u32(refcodec.PropTopicAlias, uint32(o.Alias)))
		}
		for _, kv := range o.UP {
			p.Props = append(p.Props, refcodec.Prop{ID: refcodec.PropUser, Str: kv[0], Val: kv[1]})
		}
	}
	return refcodec.Encode(p)
}

func (h *History) encodeSub(c *conn, o Op, unsub bool) []byte {
	t := refcodec.Subscribe
	if unsub {
		t = refcodec.Unsubscribe
	}
	p := refcodec.New(byte(t), byte(c.version))
	p.PacketID = uint16(o.Pid)
	for _, f := range o.Filters {
		opt := byte(f.Qos)
		if c.version == 5 {
			if f.NL {
				opt |= 4
			}
			if f.RAP {
				opt |= 8
			}
			opt |= byte(f.RH) << 4
		}
		p.Filters = append(p.Filters, refcodec.Filter{Filter: join(f.F), Options: opt})
	}
	if c.version == 5 {
		p.HasProps = true
		if o.SubID > 0 && !unsub {
			p.Props = append(p.Props, u32(refcodec.PropSubscriptionID, uint32(o.SubID)))
		}
	}
	return refcodec.Encode(p)
}

func (h *History) encodeAck(c *conn, t byte, pid, rc int, short bool) []byte {
	p := refcodec.New(t, byte(c.version))
	p.PacketID = uint16(pid)
	if c.version == 5 && !(short && rc == 0) {
		p.HasReason = true
		p.ReasonCode = byte(rc)
		p.HasProps = !short
	}
	return refcodec.Encode(p)
}

// resolve a symbolic acknowledgement target; returns pid (0 if there is none).
func (c *conn) resolve(o Op, kind string) int {
	if o.Nth <= 0 {
		return o.Pid
	}
	n := 0
	for _, u := range c.unacked {
		ok := false
		switch kind {
		case "puback":
			ok = u.qos == 1
		case "pubrec":
			ok = u.qos == 2 && !u.rec
		case "pubcomp":
			ok = u.qos == 2 && u.rec
		}
		if ok {
			n++
			if n == o.Nth {
				return u.pid
			}
		}
	}
	return 0
}

func (c *conn) acked(kind string, pid int, rc int) {
	for i, u := range c.unacked {
		if u.pid != pid {
			continue
		}
		switch kind {
		case "puback", "pubcomp":
			c.unacked = append(c.unacked[:i], c.unacked[i+1:]...)
		case "pubrec":
			if rc >= 0x80 {
				c.unacked = append(c.unacked[:i], c.unacked[i+1:]...)
			} else {
				c.unacked[i].rec = true
			}
		}
		return
	}
}

// Step executes one op and records one trace line.
func (h *History) Step(o Op) {
	e := Event{Ev: o.Op, K: o.K, A: o, Out: map[string][]Pkt{}, Sent: map[string][]string{}}
	defer func() {
		h.collect(&e)
		h.emit(&e)
	}()
	c := h.conns[o.K]
	if c != nil {
		e.C, e.V = c.id, c.version
	}
	fail := func(f string, a ...any) { e.Err = fmt.Sprintf(f, a...) }
	sendAndWait := func(b []byte) {
		if c.dropped {
			fail("skip: connection dropped by harness")
			return
		}
		c.mu.Lock()
		dead := c.done
		c.mu.Unlock()
		if dead {
			fail("skip: connection already closed")
			return
		}
		for len(c.handled) > 0 {
			<-c.handled
		}
		if err := c.write(b); err != nil {
			// the broker stopped reading: the handler is gone or going
			select {
			case <-c.doneCh:
			case <-time.After(2 * time.Second):
			}
			if !h.quiesce() {
				fail("stuck: no quiescence")
			}
			return
		}
		if r := c.await(false, 5*time.Second); r == "timeout" {
			fail("stuck: packet not handled")
			return
		}
		if !h.quiesce() {
			fail("stuck: no quiescence")
		}
	}
	switch o.Op {
	case "connect":
		if c != nil {
			fail("skip: connection name in use")
			return
		}
		// A live connection with the same client id will be taken over. The old handler's teardown and
		// the new handler's attach run concurrently in the broker; to record the same interleaving in
		// every run the new handler is held at "attach.inherited" (the predecessor's connection is
		// closed by then) until the old handler has finished. Other orders: Attach family.
		var olds []*conn
		if o.Until == "" && o.Kind != "free" {
			for _, n := range h.order {
				oc := h.conns[n]
				oc.mu.Lock()
				live := !oc.done && !oc.dropped
				oc.mu.Unlock()
				if live && oc.id == o.ID && o.ID != "" {
					olds = append(olds, oc)
				}
			}
		}
		c = h.newConn(o.K, o.V, o.ID)
		e.C, e.V = o.ID, o.V
		if o.Until != "" {
			c.gmu.Lock()
			c.armed[o.Until] = true
			c.gmu.Unlock()
		}
		if len(olds) > 0 {
			c.gmu.Lock()
			c.armed["attach.inherited"] = true
			c.gmu.Unlock()
		}
		b := h.encodeConnect(o)
		if o.Hex != "" {
			b, _ = hex.DecodeString(o.Hex)
		}
		if err := c.write(b); err != nil {
			fail("write: %v", err)
		}
		r := c.await(true, 5*time.Second)
		if len(olds) > 0 && r == "gate:attach.inherited" {
			for _, oc := range olds {
				if oc.theirs.isClosed() {
					select {
					case <-oc.doneCh:
					case <-time.After(3 * time.Second):
						fail("stuck: predecessor handler did not end")
					}
				}
			}
			c.release <- struct{}{}
			r = c.await(true, 5*time.Second)
		}
		if r == "timeout" {
			fail("stuck: connect not completed")
		}
		if !strings.HasPrefix(r, "gate:") && !h.quiesce() {
			fail("stuck: no quiescence")
		}
	case "release": // let a gated goroutine continue, optionally to the next gate
		if c == nil {
			fail("skip: no such connection")
			return
		}
		if o.Until != "" {
			c.gmu.Lock()
			c.armed[o.Until] = true
			c.gmu.Unlock()
		}
		c.release <- struct{}{}
		if o.Kind == "async" {
			time.Sleep(time.Duration(5+o.Sleep) * time.Millisecond)
			return
		}
		var r string
		select {
		case <-c.established:
			r = "established"
		case <-c.doneCh:
			r = "done"
		case p := <-c.reached:
			r = "gate:" + p
		case <-c.handled:
			r = "handled"
		case <-time.After(3 * time.Second):
			r = "timeout"
		}
		if r == "timeout" {
			fail("infeasible: nothing reached after release")
		}
		if !strings.HasPrefix(r, "gate:") && !h.quiesce() {
			fail("stuck: no quiescence")
		}
	case "arm":
		if c == nil {
			fail("skip: no such connection")
			return
		}
		c.gmu.Lock()
		c.armed[o.Point] = true
		c.gmu.Unlock()
	case "await": // wait until an armed gate is reached by some goroutine
		if c == nil {
			fail("skip: no such connection")
			return
		}
		select {
		case <-c.reached:
		case <-time.After(2 * time.Second):
			fail("infeasible: gate %s not reached", o.Point)
		}
	case "subscribe":
		if c == nil {
			fail("skip: no such connection")
			return
		}
		sendAndWait(h.encodeSub(c, o, false))
	case "unsubscribe":
		if c == nil {
			fail("skip: no such connection")
			return
		}
		sendAndWait(h.encodeSub(c, o, true))
	case "publish":
		if c == nil {
			fail("skip: no such connection")
			return
		}
		e.Pid = o.Pid
		sendAndWait(h.encodePublish(c, o))
	case "puback", "pubrec", "pubrel", "pubcomp":
		if c == nil {
			fail("skip: no such connection")
			return
		}
		pid := c.resolve(o, o.Op)
		if pid == 0 {
			fail("skip: nothing to acknowledge")
			return
		}
		e.Pid = pid
		t := map[string]byte{"puback": refcodec.Puback, "pubrec": refcodec.Pubrec, "pubrel": refcodec.Pubrel, "pubcomp": refcodec.Pubcomp}[o.Op]
		if o.Drop && !c.dropped {
			// fault at a particular point: the packet is followed by the end of the connection, so the broker
			// processes it but cannot write its answer
			c.mu.Lock()
			dead := c.done
			c.mu.Unlock()
			if dead {
				fail("skip: connection already closed")
				return
			}
			if err := c.write(h.encodeAck(c, t, pid, o.RC, o.Short)); err != nil {
				fail("skip: connection already closed")
				return
			}
			c.dropped = true
			c.theirs.Drop()
			select {
			case <-c.doneCh:
			case <-time.After(3 * time.Second):
				fail("stuck: handler did not end after the connection was closed")
			}
			if !h.quiesce() {
				fail("stuck: no quiescence")
			}
			c.acked(o.Op, pid, o.RC)
			return
		}
		sendAndWait(h.encodeAck(c, t, pid, o.RC, o.Short))
		c.acked(o.Op, pid, o.RC)
	case "ping":
		if c == nil {
			fail("skip: no such connection")
			return
		}
		sendAndWait(refcodec.Encode(refcodec.New(refcodec.Pingreq, byte(c.version))))
	case "late_hook":
		// the pending scripted hooks are attached now, each while the broker handles a packet (a PINGREQ of connection k
		// is answered during the hook's Init)
		if c == nil {
			fail("skip: no such connection")
			return
		}
		for _, sh := range h.late {
			hk := &scriptHook{s: sh, r: h.rec, initArr: make(chan struct{}, 1), initRel: make(chan struct{})}
			added := make(chan struct{})
			go func() { _ = h.Srv.AddHook(hk, nil); close(added) }()
			select {
			case <-hk.initArr:
			case <-time.After(3 * time.Second):
				fail("stuck: hook Init not reached")
				return
			}
			// (a QoS 0 PUBLISH to a topic nobody has subscribed to yet: it runs through every publish-related hook method,
			// then a PINGREQ, which runs through the packet-related ones)
			pp := refcodec.New(refcodec.Publish, byte(c.version))
			pp.Topic, pp.Payload = "late/x", []byte("mL")
			if c.version == 5 {
				pp.HasProps = true
			}
			sendAndWait(refcodec.Encode(pp))
			sendAndWait(refcodec.Encode(refcodec.New(refcodec.Pingreq, byte(c.version))))
			close(hk.initRel)
			select {
			case <-added:
			case <-time.After(3 * time.Second):
				fail("stuck: AddHook did not return")
				return
			}
		}
		h.late = nil
	case "disconnect":
		if c == nil {
			fail("skip: no such connection")
			return
		}
		p := refcodec.New(refcodec.Disconnect, byte(c.version))
		if c.version == 5 {
			if !(o.Short && o.RC == 0 && o.SEI < 0) {
				p.HasReason = true
				p.ReasonCode = byte(o.RC)
				p.HasProps = !o.Short // long form: reason code + (empty) property block; short form: reason code only
			}
			if o.SEI >= 0 {
				p.HasProps = true
				p.Props = append(p.Props, u32(refcodec.PropSessionExpiry, uint32(o.SEI)))
			}
		}
		sendAndWait(refcodec.Encode(p))
		// a normal disconnect ends the handler; wait for it so that the teardown is part of this step
		select {
		case <-c.doneCh:
		case <-time.After(3 * time.Second):
			fail("stuck: handler did not end after DISCONNECT")
		}
		h.quiesce()
	case "raw":
		if c == nil {
			fail("skip: no such connection")
			return
		}
		b, _ := hex.DecodeString(o.Hex)
		if o.Kind == "partial" {
			_ = c.write(b)
			time.Sleep(20 * time.Millisecond)
			h.quiesce()
			return
		}
		sendAndWait(b)
	case "netdrop":
		if c == nil || c.dropped {
			fail("skip: no such connection")
			return
		}
		if o.Until != "" {
			c.gmu.Lock()
			c.armed[o.Until] = true
			c.gmu.Unlock()
		}
		c.dropped = true
		c.theirs.Drop()
		select {
		case <-c.doneCh:
		case <-c.reached:
		case <-time.After(3 * time.Second):
			fail("stuck: handler did not end after network drop")
		}
		if !h.quiesce() {
			fail("stuck: no quiescence")
		}
	case "tick":
		dt := h.now() + o.DT
		e.Tick = dt
		h.Srv.VerifTick(o.Kind, dt)
		if !h.quiesce() {
			fail("stuck: no quiescence")
		}
	case "mark": // a marker line (e.g. "drained": the generator has acknowledged everything it could)
		h.quiesce()
	case "stall":
		if c != nil {
			c.stalled = o.Kind != "off"
			c.theirs.SetStall(c.stalled)
			if !c.stalled { // everything that piled up is written now: part of this step
				if !h.quiesce() {
					fail("stuck: no quiescence")
				}
			}
		}
	case "sleep":
		time.Sleep(time.Duration(o.Sleep) * time.Millisecond)
		h.quiesce()
	case "inline_publish":
		err := h.Srv.Publish(join(o.T), payload(o.M, o.Pad), o.Retain, byte(o.Qos))
		if err != nil {
			e.Err = "api: " + err.Error()
		}
		if !h.quiesce() {
			fail("stuck: no quiescence")
		}
	case "inline_subscribe":
		id := o.InlineID
		var during atomic.Bool
		publishDuring := func() {
			if o.DurM != "" && during.CompareAndSwap(false, true) {
				_ = h.Srv.Publish(join(o.DurT), payload(o.DurM, 0), false, 0)
			}
		}
		err := h.Srv.Subscribe(join(o.T), id, func(cl *mqtt.Client, sub packets.Subscription, pk packets.Packet) {
			h.rec.add(HookEv{H: "inline", C: fmt.Sprint(id), M: msgID(pk.Payload), TS: pk.TopicName, P: sub.Identifier, Q: int(pk.FixedHeader.Qos)})
			publishDuring() // the subscription has begun to receive: it is live
		})
		if err != nil {
			e.Err = "api: " + err.Error()
		} else {
			publishDuring()
		}
		h.quiesce()
	case "inline_unsubscribe":
		err := h.Srv.Unsubscribe(join(o.T), o.InlineID)
		if err != nil {
			e.Err = "api: " + err.Error()
		}
		h.quiesce()
	default:
		fail("skip: unknown op %s", o.Op)
	}
	if c != nil && c.retErr != nil && strings.HasPrefix(c.retErr.Error(), "PANIC") {
		e.Panic = c.retErr.Error()
	}
}

// Run executes a complete history and returns its trace.
func Run(cfg Config, ops []Op) []Event {
	h := NewHistory(cfg)
	for _, o := range ops {
		if o.Op == "ackall" { // macro: acknowledge every outstanding delivery on k, one packet per step
			c := h.conns[o.K]
			for n := 0; c != nil && len(c.unacked) > 0 && n < 64; n++ {
				u := c.unacked[0]
				kind := "puback"
				if u.qos == 2 {
					kind = "pubrec"
					if u.rec {
						kind = "pubcomp"
					}
				}
				before := len(h.Events)
				h.Step(Op{Op: kind, K: o.K, Pid: u.pid, SEI: -1, RPI: -1, RRI: -1})
				if h.Events[before].Err != "" {
					break
				}
			}
			continue
		}
		h.Step(o)
	}
	h.Close()
	return h.Events
}
