package driver

import (
	"io"
	"net"
	"os"
	"sync"
	"time"
)

// memConn is the broker-side end of an in-memory connection. Everything the broker writes is
// appended synchronously to out, so when a broker Write returns the bytes are observable by the
// harness; the harness feeds bytes with Send. Read deadlines are honoured (keepalive).
type memConn struct {
	mu       sync.Mutex
	cond     *sync.Cond
	in       []byte
	inClosed bool // the harness closed its side
	closed   bool // the broker closed the connection
	out      []byte
	wrote    int // total bytes ever written by the broker
	rdl      time.Time
	timer    *time.Timer
	stalled  bool // writes block while stalled (a peer that stopped reading)
	waiting  int  // broker goroutines currently blocked in Read
	waitingW int  // broker goroutines currently blocked in Write (peer not reading)
}

type memAddr struct{}

func (memAddr) Network() string { return "mem" }
func (memAddr) String() string  { return "mem:0" }

func newMemConn() *memConn {
	m := &memConn{}
	m.cond = sync.NewCond(&m.mu)
	return m
}

type timeoutErr struct{}

func (timeoutErr) Error() string   { return "i/o timeout" }
func (timeoutErr) Timeout() bool   { return true }
func (timeoutErr) Temporary() bool { return true }
func (timeoutErr) Unwrap() error   { return os.ErrDeadlineExceeded }

func (m *memConn) Read(b []byte) (int, error) {
	m.mu.Lock()
	defer m.mu.Unlock()
	for {
		if m.closed {
			return 0, io.ErrClosedPipe
		}
		if len(m.in) > 0 {
			n := copy(b, m.in)
			m.in = m.in[n:]
			return n, nil
		}
		if m.inClosed {
			return 0, io.EOF
		}
		if !m.rdl.IsZero() && !time.Now().Before(m.rdl) {
			return 0, timeoutErr{}
		}
		m.waiting++
		m.cond.Wait()
		m.waiting--
	}
}

// WriterBlocked reports whether a broker goroutine is blocked in Write because the peer does not read.
func (m *memConn) WriterBlocked() bool {
	m.mu.Lock()
	defer m.mu.Unlock()
	return m.waitingW > 0
}

// ReaderBlocked reports whether a broker goroutine is blocked in Read with nothing to read.
func (m *memConn) ReaderBlocked() bool {
	m.mu.Lock()
	defer m.mu.Unlock()
	return m.waiting > 0 && len(m.in) == 0
}

func (m *memConn) Write(b []byte) (int, error) {
	m.mu.Lock()
	defer m.mu.Unlock()
	for m.stalled && !m.closed && !m.inClosed {
		m.waitingW++
		m.cond.Wait()
		m.waitingW--
	}
	if m.closed || m.inClosed {
		return 0, io.ErrClosedPipe
	}
	m.out = append(m.out, b...)
	m.wrote += len(b)
	return len(b), nil
}

func (m *memConn) Close() error {
	m.mu.Lock()
	m.closed = true
	m.cond.Broadcast()
	m.mu.Unlock()
	return nil
}

func (m *memConn) LocalAddr() net.Addr  { return memAddr{} }
func (m *memConn) RemoteAddr() net.Addr { return memAddr{} }

func (m *memConn) SetDeadline(t time.Time) error { return m.SetReadDeadline(t) }
func (m *memConn) SetReadDeadline(t time.Time) error {
	m.mu.Lock()
	m.rdl = t
	if m.timer != nil {
		m.timer.Stop()
		m.timer = nil
	}
	if !t.IsZero() {
		d := time.Until(t)
		if d < 0 {
			d = 0
		}
		m.timer = time.AfterFunc(d, func() { m.mu.Lock(); m.cond.Broadcast(); m.mu.Unlock() })
	}
	m.cond.Broadcast()
	m.mu.Unlock()
	return nil
}
func (m *memConn) SetWriteDeadline(t time.Time) error { return nil }

// harness side -----------------------------------------------------------------------------

// Send feeds bytes to the broker; it fails when the broker has closed the connection.
func (m *memConn) Send(b []byte) error {
	m.mu.Lock()
	defer m.mu.Unlock()
	if m.closed || m.inClosed {
		return io.ErrClosedPipe
	}
	m.in = append(m.in, b...)
	m.cond.Broadcast()
	return nil
}

// Drop closes the harness side (the broker sees EOF on read, errors on write).
func (m *memConn) Drop() {
	m.mu.Lock()
	m.inClosed = true
	m.cond.Broadcast()
	m.mu.Unlock()
}

// Take removes and returns everything the broker wrote so far, and whether the broker closed.
func (m *memConn) Take() ([]byte, bool) {
	m.mu.Lock()
	defer m.mu.Unlock()
	b := m.out
	m.out = nil
	return b, m.closed
}

func (m *memConn) SetStall(v bool) {
	m.mu.Lock()
	m.stalled = v
	m.cond.Broadcast()
	m.mu.Unlock()
}

func (m *memConn) Unread() int {
	m.mu.Lock()
	defer m.mu.Unlock()
	return len(m.in)
}

func (m *memConn) isClosed() bool {
	m.mu.Lock()
	defer m.mu.Unlock()
	return m.closed
}
