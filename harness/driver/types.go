// Package driver boots the real broker (built with -tags verif), executes an abstract operation
// list over in-memory connections, one step at a time with quiescence between steps, and records
// what the broker did as trace lines for TLC (spec/TraceBroker.tla). It contains no oracle.
package driver

// Config is the first line of every recorded trace ("ev":"Config").
type Config struct {
	MaxQos        int    `json:"max_qos"`
	RetainAvail   int    `json:"retain_avail"`
	RecvMax       int    `json:"recv_max"`     // server Receive Maximum
	MaxInflight   int    `json:"max_inflight"` // stored qos>0 messages per client
	MaxPending    int    `json:"max_pending"`  // MaximumClientWritesPending
	MaxMsgExpiry  int64  `json:"max_msg_expiry"`
	MaxSessExpiry int64  `json:"max_sess_expiry"` // -1 = default (math.MaxUint32)
	TopicAliasMax int    `json:"topic_alias_max"`
	MaxClients    int64  `json:"max_clients"` // 0 = unlimited
	MaxPacketSize int    `json:"max_packet_size"`
	MinProto      int    `json:"min_proto"`
	Obscure       bool   `json:"obscure"`
	WriteBuf      int    `json:"write_buf"`
	Inline        bool   `json:"inline"`
	MaxPacketID   int    `json:"max_packet_id"` // 0 = 65535
	Auth          string `json:"auth"`          // "allow" | "none" | "acl"
	// ACL relation for Auth=="acl": pairs [client, topic-or-filter string] that are DENIED.
	DenyRead  [][2]string `json:"deny_read"`
	DenyWrite [][2]string `json:"deny_write"`
	DenyConn  []string    `json:"deny_conn"` // client ids refused by the authentication hook
	// Scripted hooks (C19): each entry is one hook in registration order.
	Scripted []ScriptedHook `json:"scripted"`
	// the last Late scripted hooks are not attached when the broker is built but by the op "late_hook", while a packet is
	// being handled (during the hook's Init)
	Late int `json:"late"`
}

// ScriptedHook describes one test hook of a stack (C19).
type ScriptedHook struct {
	Name      string `json:"name"`
	OnPublish string `json:"on_publish"` // pass | topic:<t> | payload:<p> | reject | ignore | code | error
	OnRead    string `json:"on_read"`    // pass | reject | topic:<t>
	OnSub     string `json:"on_sub"`     // pass | qos0
	Auth      string `json:"auth"`       // "" (not provided) | allow | deny
	ACL       string `json:"acl"`        // "" (not provided) | allow | deny
}

func DefaultConfig() Config {
	return Config{MaxQos: 2, RetainAvail: 1, RecvMax: 1024, MaxInflight: 8192, MaxPending: 8192,
		MaxMsgExpiry: 86400, MaxSessExpiry: -1, TopicAliasMax: 65535, MaxClients: 0, MinProto: 3,
		WriteBuf: 2048, Auth: "allow", DenyRead: [][2]string{}, DenyWrite: [][2]string{}, DenyConn: []string{}, Scripted: []ScriptedHook{}}
}

// SubOpt is one filter of a SUBSCRIBE op.
type SubOpt struct {
	F   []string `json:"f"` // levels ("$share","g",... for shared filters)
	Qos int      `json:"qos"`
	NL  bool     `json:"nl"`
	RAP bool     `json:"rap"`
	RH  int      `json:"rh"`
}

// WillOpt describes the will of a CONNECT op.
type WillOpt struct {
	T      []string `json:"t"`
	M      string   `json:"m"`
	Qos    int      `json:"qos"`
	Retain bool     `json:"retain"`
	Delay  int      `json:"delay"`
}

// Op is one abstract operation. Fields not used by an op stay zero.
type Op struct {
	Op string `json:"op"`
	K  string `json:"k"` // connection name
	// connect
	ID       string   `json:"id"`
	V        int      `json:"v"` // 3,4,5
	Clean    bool     `json:"clean"`
	KA       int      `json:"ka"`
	SEI      int64    `json:"sei"` // session expiry interval; -1 = property absent
	RM       int      `json:"rm"`  // client receive maximum; 0 = absent
	MPS      int      `json:"mps"` // client maximum packet size; 0 = absent
	TAM      int      `json:"tam"` // client topic alias maximum
	RPI      int      `json:"rpi"` // request problem information: -1 absent, 0, 1
	RRI      int      `json:"rri"` // request response information: -1 absent, 0, 1
	Will     *WillOpt `json:"will,omitempty"`
	User     string   `json:"user"`
	Pass     string   `json:"pass"`
	Until    string   `json:"until"`    // connect/netdrop: stop at this gate (interleaving replay)
	RawFlags int      `json:"rawflags"` // connect: -1 or absent = computed; else raw connect flags byte
	Proto    string   `json:"proto"`    // connect: protocol name override
	// subscribe / unsubscribe
	Pid     int      `json:"pid"`
	Filters []SubOpt `json:"filters"`
	SubID   int      `json:"subid"`
	// publish
	T       []string    `json:"t"`
	M       string      `json:"m"` // message id = payload ("" = empty payload)
	Pad     int         `json:"pad"`
	Qos     int         `json:"qos"`
	Retain  bool        `json:"retain"`
	Dup     bool        `json:"dup"`
	Alias   int         `json:"alias"`
	NoTopic bool        `json:"notopic"` // publish with empty topic (alias use)
	MEI     int         `json:"mei"`     // message expiry interval
	CT      string      `json:"ct"`
	RT      string      `json:"rt"`
	CD      string      `json:"cd"`
	UP      [][2]string `json:"up"`
	// acks: pid explicit, or nth>0 = n-th outstanding delivery on k (symbolic)
	Nth  int  `json:"nth"`
	RC   int  `json:"rc"`
	Drop bool `json:"drop"` // acks: the client closes the connection right after writing the packet (the broker reads it, its answer cannot be written)
	// disconnect
	Short bool `json:"short"` // v5 DISCONNECT/acks in their short forms
	// tick
	Kind string `json:"kind"` // clients|retained|inflight|wills|sys
	DT   int64  `json:"dt"`   // offset in seconds added to the real clock
	// raw bytes
	Hex string `json:"hex"`
	// gates
	Point string `json:"point"`
	// inline
	InlineID int `json:"inline_id"`
	// inline_subscribe: a QoS 0 message published while the new subscription's handler runs for the first time (on a
	// retained message), or right after Subscribe returned when nothing retained matches
	DurM string   `json:"dur_m"`
	DurT []string `json:"dur_t"`
	// stall
	Sleep int `json:"sleep_ms"`
}

// Pkt is the abstraction of one packet seen on the wire (decoded by refcodec). All fields are
// always present so that the TLA+ side can access them without guards.
type Pkt struct {
	T     int         `json:"t"` // packet type number
	Qos   int         `json:"qos"`
	Dup   bool        `json:"dup"`
	Ret   bool        `json:"ret"`
	Pid   int         `json:"pid"`
	Topic []string    `json:"topic"` // levels; empty sequence when the topic string is empty
	TS    string      `json:"ts"`
	M     string      `json:"m"`
	Plen  int         `json:"plen"`
	Sid   []int       `json:"sid"`
	Alias int         `json:"alias"`
	MEI   int         `json:"mei"` // -1 absent
	CT    string      `json:"ct"`
	RT    string      `json:"rt"`
	CD    string      `json:"cd"`
	UP    [][2]string `json:"up"`
	RC    int         `json:"rc"`
	HasRC bool        `json:"has_rc"`
	SP    bool        `json:"sp"`
	Codes []int       `json:"codes"`
	Props []int       `json:"props"` // property identifiers present, wire order
	Len   int         `json:"len"`   // total bytes
	WF    string      `json:"wf"`    // "" when refcodec's strict decoder accepts it, else the violated rule
	Hex   string      `json:"hex"`
	RS    bool        `json:"rs"`      // reason string present
	RI    bool        `json:"ri"`      // response information present
	ACID  string      `json:"acid"`    // assigned client id
	SrvKA int         `json:"srv_ka"`  // -1 absent
	SEI   int64       `json:"sei"`     // -1 absent
	RecvM int         `json:"recv_m"`  // receive maximum property, -1 absent
	MaxQ  int         `json:"max_q"`   // maximum qos property, -1 absent
	TAM   int         `json:"tam_out"` // topic alias maximum, -1 absent
}

// HookEv is one recorded hook invocation.
type HookEv struct {
	H  string `json:"h"`
	C  string `json:"c"`
	M  string `json:"m"`
	TS string `json:"ts"`
	P  int    `json:"p"` // packet id / r value / expire flag
	T  int    `json:"t"` // packet type
	Q  int    `json:"q"`
}

// SubSt is one subscription as stored.
type SubSt struct {
	F    []string `json:"f"`
	FS   string   `json:"fs"`
	Qos  int      `json:"qos"`
	NL   bool     `json:"nl"`
	RAP  bool     `json:"rap"`
	RH   int      `json:"rh"`
	ID   int      `json:"id"`
	C    string   `json:"c"`
	Kind string   `json:"kind"` // client | shared | inline
	G    string   `json:"g"`
}

// InfSt is one record of a client's in-flight map.
type InfSt struct {
	Pid     int    `json:"pid"`
	T       int    `json:"t"` // packet type of the stored record (3 publish, 5 pubrec marker, 6 pubrel, ...)
	Qos     int    `json:"qos"`
	M       string `json:"m"`
	TS      string `json:"ts"`
	Created int64  `json:"created"`
	Expiry  int64  `json:"expiry"`
	Dup     bool   `json:"dup"`
}

// ClientSt is the projection of one entry of Server.Clients.
type ClientSt struct {
	ID        string   `json:"id"`
	K         string   `json:"k"` // connection name of this client object ("" for restored/unknown)
	Closed    bool     `json:"closed"`
	TakenOver bool     `json:"taken_over"`
	StopTime  int64    `json:"stop_time"`
	V         int      `json:"v"`
	Clean     bool     `json:"clean"`
	SEI       int64    `json:"sei"`
	SEIFlag   bool     `json:"sei_flag"`
	Subs      []SubSt  `json:"subs"`
	Inflight  []InfSt  `json:"inflight"`
	SendQ     int      `json:"sendq"`
	RecvQ     int      `json:"recvq"`
	MaxSend   int      `json:"maxsend"`
	MaxRecv   int      `json:"maxrecv"`
	PidCur    int      `json:"pidcur"`
	OutQ      int      `json:"outq"`
	OutBuf    int      `json:"outbuf"`
	WillFlag  bool     `json:"will_flag"`
	AliasOut  [][2]any `json:"alias_out"` // [topic, alias]
	AliasIn   [][2]any `json:"alias_in"`  // [alias, topic]
	Inline    bool     `json:"inline"`
}

// RetSt is one retained message.
type RetSt struct {
	T       []string `json:"t"`
	TS      string   `json:"ts"`
	M       string   `json:"m"`
	Qos     int      `json:"qos"`
	Created int64    `json:"created"`
	Expiry  int64    `json:"expiry"`
	Origin  string   `json:"origin"`
}

// WillSt is one pending delayed will.
type WillSt struct {
	C   string `json:"c"`
	TS  string `json:"ts"`
	M   string `json:"m"`
	Due int64  `json:"due"`
}

// InfoSt are the $SYS counters checked by C38 together with the actual counts.
type InfoSt struct {
	Connected       int64 `json:"connected"`
	Subscriptions   int64 `json:"subscriptions"`
	Retained        int64 `json:"retained"`
	Inflight        int64 `json:"inflight"`
	InflightDropped int64 `json:"inflight_dropped"`
	MessagesDropped int64 `json:"messages_dropped"`
	ClientsTotal    int64 `json:"clients_total"`
}

// State is the projection of the broker state at a quiescent point.
type State struct {
	Clients  []ClientSt `json:"clients"`
	Trie     []SubSt    `json:"trie"`      // every subscription found in the topic trie
	RetPaths []string   `json:"ret_paths"` // retainPath markers in the trie
	Retained []RetSt    `json:"retained"`
	Delayed  []WillSt   `json:"delayed"`
	Info     InfoSt     `json:"info"`
	Now      int64      `json:"now"`
}

// ConnSt is the harness-side view of one connection.
type ConnSt struct {
	K       string `json:"k"`
	C       string `json:"c"`
	V       int    `json:"v"`
	EOF     bool   `json:"eof"`     // the broker closed the connection (reader saw EOF)
	Dropped bool   `json:"dropped"` // the harness closed it
	Done    bool   `json:"done"`    // EstablishConnection returned
	Stalled bool   `json:"stalled"` // the harness has stopped reading from it (writes of the broker block)
}

// Event is one trace line.
type Event struct {
	I      int                 `json:"i"`
	Ev     string              `json:"ev"`
	K      string              `json:"k"`
	C      string              `json:"c"`
	V      int                 `json:"v"`
	A      Op                  `json:"a"`
	Pid    int                 `json:"pid"` // packet id actually used (symbolic acks resolved)
	Out    map[string][]Pkt    `json:"out"`
	Sent   map[string][]string `json:"sent"`   // hex of packets reported through OnPacketSent, per connection
	Closed []string            `json:"closed"` // connections that reached EOF or whose handler returned in this step
	Hooks  []HookEv            `json:"hooks"`
	Conns  []ConnSt            `json:"conns"`
	St     State               `json:"st"`
	Cfg    *Config             `json:"cfg,omitempty"`
	Gates  []string            `json:"gates"` // gate events observed in this step, in order: "k:point"
	Err    string              `json:"err"`
	Panic  string              `json:"panic"`
	Tick   int64               `json:"tick"` // the dt passed to housekeeping
}
