// Package hx holds small helpers shared by the harness commands (JSON I/O, seeded RNG, result files).
package hx

import (
	"bufio"
	"encoding/json"
	"fmt"
	"math/rand"
	"os"
	"strconv"
	"strings"
)

// Seed returns VERIF_SEED (default 1).
func Seed() int64 {
	if s := os.Getenv("VERIF_SEED"); s != "" {
		if v, err := strconv.ParseInt(s, 10, 64); err == nil {
			return v
		}
	}
	return 1
}

func Rand(salt int64) *rand.Rand { return rand.New(rand.NewSource(Seed()*1000003 + salt)) }

func ReadJSON(path string, v any) {
	b, err := os.ReadFile(path)
	if err != nil {
		Die("read %s: %v", path, err)
	}
	if err := json.Unmarshal(b, v); err != nil {
		Die("parse %s: %v", path, err)
	}
}

func WriteJSON(path string, v any) {
	b, err := json.Marshal(v)
	if err != nil {
		Die("marshal: %v", err)
	}
	if err := os.WriteFile(path, b, 0o644); err != nil {
		Die("write %s: %v", path, err)
	}
}

// Die reports a harness failure (exit 3: the runner maps it to "inconclusive", never to a violation).
func Die(f string, a ...any) {
	fmt.Fprintf(os.Stderr, "harness error: "+f+"\n", a...)
	os.Exit(3)
}

// NDJSON writer.
type ND struct {
	f *os.File
	w *bufio.Writer
	N int
}

func NewND(path string) *ND {
	f, err := os.Create(path)
	if err != nil {
		Die("create %s: %v", path, err)
	}
	return &ND{f: f, w: bufio.NewWriterSize(f, 1<<20)}
}
func (n *ND) Put(v any) {
	b, err := json.Marshal(v)
	if err != nil {
		Die("marshal: %v", err)
	}
	n.w.Write(b)
	n.w.WriteByte('\n')
	n.N++
}
func (n *ND) Close() { n.w.Flush(); n.f.Close() }

// Join levels into the MQTT string form.
func Join(levels []string) string { return strings.Join(levels, "/") }

// Result is what a harness command reports back to the runner.
type Result struct {
	Evaluations int              `json:"evaluations"`
	Distinct    int              `json:"distinct_nontrivial"`
	Mismatches  []map[string]any `json:"mismatches"`
	NMismatch   int              `json:"n_mismatch"`
	Samples     []any            `json:"samples"`
	Extra       map[string]any   `json:"extra,omitempty"`
}

func (r *Result) Mismatch(m map[string]any) {
	r.NMismatch++
	if len(r.Mismatches) < 200 {
		r.Mismatches = append(r.Mismatches, m)
	}
}
func (r *Result) Sample(v any) {
	if len(r.Samples) < 5 {
		r.Samples = append(r.Samples, v)
	}
}
